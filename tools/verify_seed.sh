#!/bin/bash
# usage: verify_seed.sh <PROP> <variant-dir>   e.g. verify_seed.sh C15 /tmp/seed_C15/a
# Confirms in a scratch worktree of /repo (current HEAD): demo passes clean, fails with the patch, suite unchanged with the patch.
set -u
ID=$1; DIR=$2; TAG=$(basename $DIR)
WT=/tmp/vs_${ID}_${TAG}
OUT=$DIR/verify.log
rm -rf $WT; git -C /repo worktree prune; git -C /repo worktree add -q --detach $WT HEAD || exit 3
export OPENMDAO_REPORTS=0
cd $WT
{
echo "== HEAD $(git rev-parse --short HEAD)"
/venv/bin/python $DIR/demo.py $WT > $DIR/demo_clean.out 2>&1; echo "demo_clean_exit=$?"
git apply $DIR/patch.diff; echo "apply_exit=$?"
/venv/bin/python $DIR/demo.py $WT > $DIR/demo_patched.out 2>&1; echo "demo_patched_exit=$?"
/venv/bin/python -m pytest -q -p no:cacheprovider --timeout=900 -n 6 tests 2>&1 | tail -8
} > $OUT 2>&1
cd /; git -C /repo worktree remove --force $WT
cat $OUT
