#!/bin/bash
# usage: try_sed.sh "<file-relative-to-repo>" "<sed expr>" <PROP> [<PROP>...]  -- own quick mutants (never committed to /repo)
set -u
F=$1; EXPR=$2; shift 2
WT=/tmp/tsed_$$
git -C /repo worktree prune; git -C /repo worktree add -q --detach $WT HEAD || exit 3
sed -i "$EXPR" $WT/$F
if git -C $WT diff --quiet; then echo "SED CHANGED NOTHING"; git -C /repo worktree remove --force $WT; exit 3; fi
git -C $WT diff | grep '^[-+]' | grep -v '^+++\|^---' | head -6
EV=$(mktemp -d)
for P in "$@"; do
  OAS_REPO=$WT VERIF_EVIDENCE_DIR=$EV VERIF_TIER=${VERIF_TIER:-quick} /verif/check $P > $EV/$P.out 2>&1
  echo "$P exit=$? : $(grep -c '^VIOLATION' $EV/$P.out) VIOLATION lines; $(grep '^VIOLATION' -A1 $EV/$P.out | grep -v '^VIOLATION\|^--' | head -3 | cut -c1-160 | tr '\n' '|')"
done
rm -rf $EV; git -C /repo worktree remove --force $WT
