#!/venv/bin/python
"""Mutation campaign: small syntactic changes to the anchor files of the properties, each applied to a scratch worktree of /repo
HEAD (never to /repo), against which the quick tier of the relevant checks is run.  Survivors are written to the result file for
analysis (equivalent mutant, outside every property, or a gap in a check).

usage: mutate.py --n 120 --seed 1 --out /verif/mutation/run1.jsonl [--files a.py b.py] [--par 3] [--jobs 5]
"""
import argparse
import ast
import collections
import concurrent.futures
import json
import os
import random
import re
import subprocess
import sys
import tempfile
import time

REPO = "/repo"
SKIP_FUNCS = {"write_FFD_file", "writeMesh", "plot3D", "view_mat", "plot_mesh", "plot_meshes", "write_tecplot"}  # file writers / plotting helpers
DERIV_FUNCS = {"compute_partials", "linearize", "solve_linear", "apply_linear", "compute_jacvec_product"}

OPS = [
    ("plus_to_minus", re.compile(r"(?<=[\w\)\]]) \+ (?=[\w\(\-])"), " - "),
    ("minus_to_plus", re.compile(r"(?<=[\w\)\]]) - (?=[\w\(])"), " + "),
    ("aug_plus_to_minus", re.compile(r" \+= "), " -= "),
    ("aug_minus_to_plus", re.compile(r" -= "), " += "),
    ("two_to_one", re.compile(r"(?<![\w\.])2\.0?(?![\w\.\d])"), "1.0"),
    ("half_to_quarter", re.compile(r"(?<![\w\.\d])0\.5(?![\d])"), "0.25"),
    ("slice_tail_to_head", re.compile(r"\[1:\]"), "[:-1]"),
    ("slice_head_to_tail", re.compile(r"\[:-1\]"), "[1:]"),
    ("lt_to_le", re.compile(r" < "), " <= "),
    ("gt_to_ge", re.compile(r" > "), " >= "),
    ("le_to_lt", re.compile(r" <= "), " < "),
    ("ge_to_gt", re.compile(r" >= "), " > "),
    ("eq_to_ne", re.compile(r" == "), " != "),
    ("sin_to_cos", re.compile(r"np\.sin\("), "np.cos("),
    ("cos_to_sin", re.compile(r"np\.cos\("), "np.sin("),
    ("axis0_to_1", re.compile(r"axis=0\b"), "axis=1"),
    ("axis1_to_0", re.compile(r"axis=1\b"), "axis=0"),
    ("if_negate", re.compile(r"^(\s*)if (?!not )(.+):\s*$"), r"\1if not (\2):"),
    ("mul_to_plain", re.compile(r" \*= 2\.?0?\b"), " *= 1.0"),
    ("idx0_to_last", re.compile(r"\[0\](?!\s*=)"), "[-1]"),
    ("last_to_idx0", re.compile(r"\[-1\](?!\s*=)"), "[0]"),
]


def anchors():
    m = collections.defaultdict(list)
    for line in open("/verif/properties.jsonl"):
        d = json.loads(line)
        for f in d["anchors"]["files"]:
            m[f].append(d["id"])
    return m


def regions(src):
    """line -> (class name, function name) for lines inside function bodies; docstring lines excluded"""
    tree = ast.parse(src)
    out = {}
    doc = set()

    def visit(node, cls, fn):
        for ch in ast.iter_child_nodes(node):
            if isinstance(ch, ast.ClassDef):
                visit(ch, ch.name, None)
            elif isinstance(ch, (ast.FunctionDef, ast.AsyncFunctionDef)):
                body = ch.body
                if body and isinstance(body[0], ast.Expr) and isinstance(getattr(body[0], "value", None), ast.Constant) and isinstance(body[0].value.value, str):
                    for ln in range(body[0].lineno, body[0].end_lineno + 1):
                        doc.add(ln)
                for ln in range(ch.lineno + 1, ch.end_lineno + 1):
                    out[ln] = (cls, ch.name)
                visit(ch, cls, ch.name)
            else:
                visit(ch, cls, fn)

    visit(tree, None, None)
    for ln in doc:
        out.pop(ln, None)
    # multi-line strings elsewhere
    for node in ast.walk(tree):
        if isinstance(node, ast.Constant) and isinstance(node.value, str) and node.end_lineno > node.lineno:
            for ln in range(node.lineno, node.end_lineno + 1):
                out.pop(ln, None)
    return out


def candidates(files):
    cands = []
    for f in files:
        path = os.path.join(REPO, f)
        raw = open(path, newline="").read()
        src = raw.replace("\r\n", "\n")
        try:
            reg = regions(src)
        except SyntaxError:
            continue
        lines = src.split("\n")
        for i, line in enumerate(lines, start=1):
            if i not in reg or reg[i][1] in SKIP_FUNCS:
                continue
            st = line.strip()
            if not st or st.startswith("#") or "options.declare" in st or "desc=" in st or st.startswith(("raise ", "warnings.", "print(", "import ", "from ")):
                continue
            code = line.split("#")[0]
            for name, rx, rep in OPS:
                for mt in rx.finditer(code):
                    new = code[: mt.start()] + mt.expand(rep) + code[mt.end():]
                    if name == "if_negate":
                        new = rx.sub(rep, code)
                    if new != code:
                        cands.append(dict(file=f, line=i, op=name, old=line, new=new + line[len(code):], cls=reg[i][0], func=reg[i][1]))
                    if name == "if_negate":
                        break
    return cands


def run_checks(wt, props, jobs, only_class=None):
    res = {}
    for p in props:
        ev = tempfile.mkdtemp(prefix="mut_ev_")
        env = dict(os.environ, OAS_REPO=wt, VERIF_EVIDENCE_DIR=ev, VERIF_TIER="quick", VERIF_JOBS=str(jobs), VERIF_REACH="0")
        if only_class and p == "C01":
            env["VERIF_ONLY_CLASS"] = only_class
        t0 = time.time()
        try:
            r = subprocess.run(["/verif/check", p], env=env, capture_output=True, text=True, timeout=3600)
            out = r.stdout
            m = re.search(r"(\d+) violations \((\d+) known\), (\d+) inconclusive", out)
            nv, nk, ni = (int(m.group(1)), int(m.group(2)), int(m.group(3))) if m else (None, None, None)
            first = [l.strip()[:160] for l in out.splitlines() if l.startswith("   [")][:2]
            res[p] = dict(exit=r.returncode, violations=nv, known=nk, inconclusive=ni, first=first, wall=round(time.time() - t0, 1))
        except subprocess.TimeoutExpired:
            res[p] = dict(exit=None, timeout=True)
        subprocess.run(["rm", "-rf", ev])
        if res[p].get("exit") == 1:
            break  # killed
    return res


def one(mut, idx, amap, jobs, baseline):
    wt = "/tmp/mut_wt_%d_%d" % (os.getpid(), idx)
    subprocess.run(["git", "-C", REPO, "worktree", "add", "-q", "--detach", wt, "HEAD"], check=True, capture_output=True)
    try:
        path = os.path.join(wt, mut["file"])
        raw = open(path, newline="").read()
        crlf = "\r\n" in raw
        lines = raw.replace("\r\n", "\n").split("\n")
        assert lines[mut["line"] - 1] == mut["old"], "line mismatch"
        lines[mut["line"] - 1] = mut["new"]
        txt = "\n".join(lines)
        if crlf:
            txt = txt.replace("\n", "\r\n")
        with open(path, "w", newline="") as fh:
            fh.write(txt)
        c = subprocess.run(["/venv/bin/python", "-m", "py_compile", path], capture_output=True)
        if c.returncode != 0:
            return dict(mut, status="does_not_compile")
        props = amap.get(mut["file"], [])
        deriv = mut["func"] in DERIV_FUNCS
        stage1 = (["C01"] + [p for p in props if p in ("C02", "C19") and "mphys" in mut["file"]]) if deriv else [p for p in props if p not in ("C01", "C02", "C03")]
        if not stage1:
            stage1 = ["C01"]
        res = run_checks(wt, stage1, jobs, only_class=mut["cls"])
        killed = [p for p, r in res.items() if r.get("exit") == 1 and (r.get("violations") or 0) > baseline.get(p, 0)]
        killed += [p for p, r in res.items() if r.get("exit") == 1 and p not in killed]
        stage2 = {}
        if not killed and not deriv and "C01" in props:
            stage2 = run_checks(wt, ["C01"], jobs, only_class=mut["cls"])
            killed = [p for p, r in stage2.items() if r.get("exit") == 1]
        if not killed:
            # last stage: the model-level derivative / history checks, and the component derivative check (unrestricted) for helpers
            last = [p for p in ("C02", "C03") if p in props and p not in res and p not in stage2]
            if ("vector_algebra" in mut["file"] or mut["cls"] is None or mut["func"] == "setup") and "C01" not in res and "C01" not in stage2:
                last = ["C01"] + last  # helpers used by several classes: unrestricted; constant partials declared in setup: class-restricted
            if last:
                r3 = run_checks(wt, last, jobs, only_class=(mut["cls"] if mut["func"] == "setup" and mut["cls"] else None))
                stage2.update({k + ("" if k not in stage2 else "_full"): v for k, v in r3.items()})
                killed = [p for p, r in r3.items() if r.get("exit") == 1]
        incon = [p for p, r in {**res, **stage2}.items() if r.get("exit") == 2]
        return dict(mut, status="killed" if killed else ("inconclusive" if incon else "survived"), killed_by=killed, inconclusive=incon, checks={**res, **stage2})
    except Exception as e:  # noqa: BLE001
        return dict(mut, status="error", error="%s: %s" % (type(e).__name__, e))
    finally:
        subprocess.run(["git", "-C", REPO, "worktree", "remove", "--force", wt], capture_output=True)
        subprocess.run(["rm", "-rf", wt])


def main():
    ap = argparse.ArgumentParser()
    ap.add_argument("--n", type=int, default=60)
    ap.add_argument("--seed", type=int, default=1)
    ap.add_argument("--out", required=True)
    ap.add_argument("--files", nargs="*")
    ap.add_argument("--par", type=int, default=3)
    ap.add_argument("--jobs", type=int, default=5)
    ap.add_argument("--funcs", nargs="*", help="restrict to these function names")
    a = ap.parse_args()
    amap = anchors()
    files = a.files or sorted(amap)
    cands = candidates(files)
    if a.funcs:
        cands = [c for c in cands if c["func"] in a.funcs]
    rnd = random.Random(a.seed)
    # sample evenly over files so that large files do not dominate
    byf = collections.defaultdict(list)
    for c in cands:
        byf[c["file"]].append(c)
    order = []
    keys = sorted(byf)
    for k in keys:
        rnd.shuffle(byf[k])
    while len(order) < a.n and any(byf.values()):
        rnd.shuffle(keys)
        for k in keys:
            if byf[k] and len(order) < a.n:
                order.append(byf[k].pop())
    print("candidates: %d in %d files; sampled %d" % (len(cands), len(files), len(order)), flush=True)
    os.makedirs(os.path.dirname(a.out), exist_ok=True)
    baseline = {}
    done = 0
    with open(a.out, "a") as fh, concurrent.futures.ThreadPoolExecutor(a.par) as ex:
        futs = {ex.submit(one, m, i, amap, a.jobs, baseline): m for i, m in enumerate(order)}
        for fu in concurrent.futures.as_completed(futs):
            r = fu.result()
            done += 1
            fh.write(json.dumps(r) + "\n")
            fh.flush()
            print("[%d/%d] %s %s:%d %s (%s.%s) -> %s %s" % (done, len(order), r["status"], r["file"], r["line"], r["op"], r.get("cls"), r.get("func"),
                                                          r.get("killed_by", ""), r.get("inconclusive", "")), flush=True)
    subprocess.run(["git", "-C", REPO, "worktree", "prune"])


if __name__ == "__main__":
    sys.exit(main())
