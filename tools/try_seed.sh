#!/bin/bash
# usage: try_seed.sh <seed-dir> <PROP> [<PROP>...]   runs the given checks against a scratch worktree of /repo HEAD + patch
# (equivalent to git -C /repo apply / checkout, but does not disturb /repo; evidence goes to a scratch dir)
set -u
DIR=$1; shift
TAG=$(echo $DIR | tr '/' '_')
WT=/tmp/ts$TAG
rm -rf $WT; git -C /repo worktree prune; git -C /repo worktree add -q --detach $WT HEAD || exit 3
git -C $WT apply $DIR/patch.diff || { echo "PATCH DOES NOT APPLY"; git -C /repo worktree remove --force $WT; exit 3; }
EV=$(mktemp -d)
for P in "$@"; do
  OAS_REPO=$WT VERIF_EVIDENCE_DIR=$EV VERIF_TIER=${VERIF_TIER:-quick} /verif/check $P > $EV/$P.out 2>&1
  echo "[$DIR] $P exit=$? : $(grep -c '^VIOLATION' $EV/$P.out) VIOLATION lines; $(grep '^VIOLATION' -A1 $EV/$P.out | grep -v '^VIOLATION' | head -3 | cut -c1-200 | tr '\n' '|')"
  tail -1 $EV/$P.out | cut -c1-250
done
rm -rf $EV; git -C /repo worktree remove --force $WT
