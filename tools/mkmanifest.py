#!/venv/bin/python
"""Regenerates MANIFEST.json from the metadata of the check modules that exist (run from /verif)."""
import importlib
import json
import os
import sys

HERE = os.path.dirname(os.path.dirname(os.path.abspath(__file__)))
sys.path.insert(0, HERE)
os.environ.setdefault("OAS_REPO", "/repo")
props = [json.loads(l) for l in open(os.path.join(HERE, "properties.jsonl"))]
checks = []
na = []
NA_REASONS = {}
for p in props:
    pid = p["id"]
    path = os.path.join(HERE, "oasverif", "checks", pid.lower() + ".py")
    if not os.path.exists(path):
        na.append({"property_id": pid, "reason": NA_REASONS.get(pid, "check not built yet in this round (runtime monitoring applies; see DESIGN.md section 3)")})
        continue
    src = open(path).read()
    meta = {}
    mod = importlib.import_module("oasverif.checks." + pid.lower())
    checks.append({
        "property_id": pid,
        "quick_cmd": "./check %s" % pid,
        "thorough_cmd": "VERIF_TIER=thorough ./check %s" % pid,
        "evidence_file": "/verif/evidence/%s.json" % pid,
        "replay_cmd_template": "./check %s --replay {path}" % pid,
        "engine": "oasverif",
        "level_claimed": {
            "category": getattr(mod, "LEVEL", "exploration"),
            "text": getattr(mod, "LEVEL_TEXT", "held on the executions explored; see evidence for what the monitors observed"),
            "design_ref": "DESIGN.md section 3, " + pid,
        },
        "level_note": getattr(mod, "LEVEL_NOTE", "trusts numpy/scipy/OpenMDAO and the harness' reference models (self-tested at setup)"),
        "technique": getattr(mod, "TECHNIQUE", "runtime monitoring: post-condition / reference-model / metamorphic oracles over generated executions of the real code"),
    })
man = {
    "version": 1,
    "setup_cmd": "./check --selftest",
    "hooks": {
        "guard": "OAS_VERIF",
        "enable": "no source hooks: ./check sets OAS_VERIF=1 and PYTHONPATH=/repo:/verif; the harness monkey-patches OpenMDAO component wrappers and OpenAeroStruct functions at import time inside its own worker processes only",
        "baseline_off_cmd": "cd /repo && /venv/bin/python -m pytest -ra -q -p no:cacheprovider --timeout=900 --continue-on-collection-errors",
        "source_commits": [],
        "add_only": True,
    },
    "engines": [{"name": "oasverif", "path": "/verif/oasverif", "serves_properties": [c["property_id"] for c in checks],
                 "kind_free_text": "Python runtime-monitoring harness: case generator (model zoo), worker subprocess farm, component-boundary monitors, independent reference models (VLM, frame FEM), Richardson/complex-step derivative oracle, known-finding classifier"}],
    "checks": checks,
    "not_applicable": na,
    "notes": "All checks run /venv/bin/python with PYTHONPATH=/repo first and assert that openaerostruct is imported from /repo. Exit 0 held, 1 violation (VIOLATION lines), 2 inconclusive. Known findings: /verif/known_findings.json.",
}
json.dump(man, open(os.path.join(HERE, "MANIFEST.json"), "w"), indent=1)
print("checks:", [c["property_id"] for c in checks], "not claimed:", [n["property_id"] for n in na])
