#!/venv/bin/python
"""Copies verified sub-agent seeds from /tmp/seed_<ID>/<v>/ into /verif/seeded/<ID>_<v>/ and runs the property's check
against each (scratch worktree of /repo HEAD + patch).  usage: file_seeds.py [ID ...]"""
import glob
import json
import os
import re
import shutil
import subprocess
import sys

want = set(sys.argv[1:])
rows = []
for d in sorted(glob.glob("/tmp/seed_C*/?")) + sorted(glob.glob("/tmp/seed2_C*/?")) + sorted(glob.glob("/tmp/seed3_C*/?")):
    second = "/seed2_" in d
    third = "/seed3_" in d
    pid = os.path.basename(os.path.dirname(d)).replace("seed3_", "").replace("seed2_", "").replace("seed_", "")
    v = os.path.basename(d)
    if second:
        v = {"a": "c", "b": "d"}[v]  # later-wave seeds are filed as <ID>_c / <ID>_d
    if third:
        v = {"a": "e", "b": "f"}[v]  # ... and <ID>_e / <ID>_f
    if want and pid not in want and (pid + "_" + v) not in want:
        continue
    log = os.path.join(d, "verify.log")
    if not os.path.exists(log):
        print("skip (not verified yet)", d)
        continue
    t = open(log).read()
    ok = "demo_clean_exit=0" in t and "demo_patched_exit=1" in t and "apply_exit=0" in t and re.search(r"3 failed, 174 passed", t)
    if not ok:
        print("NOT VALID", d)
        continue
    dst = "/verif/seeded/%s_%s" % (pid, v)
    os.makedirs(dst, exist_ok=True)
    for f in ("patch.diff", "demo.py"):
        shutil.copy(os.path.join(d, f), os.path.join(dst, f))
    meta = json.load(open(os.path.join(d, "meta.json")))
    head = re.search(r"== HEAD (\w+)", t).group(1)
    meta["verified_by_me"] = {"repo_head": head, "demo_clean_exit": 0, "demo_patched_exit": 1, "suite_with_patch": "174 passed / 3 failed (baseline failures)",
                              "how": "tools/verify_seed.sh: scratch worktree of /repo HEAD, demo before/after git apply, full pytest suite with the patch"}
    # detection by the property's own check (quick tier) and by related checks
    r = subprocess.run(["/verif/tools/try_seed.sh", d, pid], capture_output=True, text=True)
    out = r.stdout
    m = re.search(r"exit=(\d+) : (\d+) VIOLATION", out)
    meta["detected_by"] = {pid + " quick": {"exit": int(m.group(1)) if m else None, "violation_lines": int(m.group(2)) if m else None,
                                            "first": [l.strip()[:200] for l in re.findall(r"\[[a-z_]+\] [^|]+", out)[:2]]}}
    json.dump(meta, open(os.path.join(dst, "meta.json"), "w"), indent=1)
    rows.append((pid, v, meta["detected_by"][pid + " quick"]["exit"], meta.get("title", "")))
    print(pid, v, "exit", rows[-1][2], "|", meta.get("title", "")[:80])
