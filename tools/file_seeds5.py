#!/venv/bin/python
"""Files the fifth-wave seeds /tmp/seed5_<ID>/a (one per property) as /verif/seeded/<ID>_g/ once tools/verify_seed.sh has confirmed them;
the detection record is taken from the output of tools/try_seed.sh kept in /tmp/try5_<ID>.out.  usage: file_seeds5.py ID [ID ...]"""
import json
import os
import re
import shutil
import sys

for pid in sys.argv[1:]:
    d = "/tmp/seed5_%s/a" % pid
    t = open(os.path.join(d, "verify.log")).read()
    ok = "demo_clean_exit=0" in t and "demo_patched_exit=1" in t and "apply_exit=0" in t and re.search(r"3 failed, 174 passed", t)
    if not ok:
        print("NOT VALID", d)
        continue
    dst = "/verif/seeded/%s_g" % pid
    os.makedirs(dst, exist_ok=True)
    for f in ("patch.diff", "demo.py"):
        shutil.copy(os.path.join(d, f), os.path.join(dst, f))
    meta = json.load(open(os.path.join(d, "meta.json")))
    meta["verified_by_me"] = {"repo_head": re.search(r"== HEAD (\w+)", t).group(1), "demo_clean_exit": 0, "demo_patched_exit": 1,
                              "suite_with_patch": "174 passed / 3 failed (baseline failures)",
                              "how": "tools/verify_seed.sh: scratch worktree of /repo HEAD, demo before/after git apply, full pytest suite with the patch"}
    out = open("/tmp/try5_%s.out" % pid).read()
    det = {}
    for m in re.finditer(r"\] (C\d\d) exit=(\d+) : (\d+) VIOLATION lines;\s*(.*)", out):
        det[m.group(1) + " quick"] = {"exit": int(m.group(2)), "violation_lines": int(m.group(3)), "first": [x.strip()[:200] for x in m.group(4).split("|")[:2] if x.strip()]}
    meta["detected_by"] = det
    json.dump(meta, open(os.path.join(dst, "meta.json"), "w"), indent=1)
    print(pid, {k: v["exit"] for k, v in det.items()}, "|", meta.get("title", "")[:90])
