"""C04 - a half-span symmetric model is equivalent to the full-span model."""
import numpy as np

from ..obs import Obs
from .. import meshes as M
from .. import zoo

LEVEL = "exploration"
RULE = ("cases = seeded random mirror-symmetric configurations modelled twice with the public groups: H (symmetry on, left- or "
        "right-half meshes) and F (symmetry off, harness-mirrored full meshes; a symmetric surface that does not touch y=0 "
        "becomes two separate full-span surfaces; point masses and thrusts duplicated).  aero: 1-3 surfaces, viscous / wave / "
        "compressible / projected area, user CL0/CD0; aerostruct: tube and wingbox with weight relief, distributed fuel, point "
        "masses + thrust, exact and KS failure.  Distributions are constant (single control points) so that both models "
        "represent the same wing.  Non-trivial = non-zero forces (and displacements) and all output families compared")
ASSUMPTIONS = ["mirror image of a mesh = spanwise node order reversed, y negated (oasverif/meshes.py)",
               "for mirror-symmetric stresses KS_full = KS_half + ln(2)/rho_KS exactly (twice as many entries)"]
REQUIRED_FAMILIES = ["aero/sec_forces", "aero/CL", "aero/CDi", "aero/CDv", "aero/CDw", "aero/CM", "aero/S_ref", "aero/L_D",
                     "as/sec_forces", "as/disp", "as/vonmises", "as/structural_mass", "as/cg", "as/fuelburn", "as/L_equals_W", "as/CL", "as/CD"]
LEVEL_TEXT = ("every generated symmetric configuration is executed as a half model and as the mirrored full model with the real "
              "groups and all outputs the property names are compared (forces and structural fields on the modelled half)")
TECHNIQUE = "runtime monitoring: metamorphic half-span/full-span twin executions compared output by output"


def cases(tier, seed):
    rng = np.random.default_rng(4000 + seed)
    out = []
    n = 36 if tier == "quick" else 900
    for k in range(n):
        ns = int(rng.choice([1, 1, 2, 3]))
        surfs = []
        for s in range(ns):
            half = str(rng.choice(["left", "right"]))
            spec = M.random_spec(rng, half=half, nx=int(rng.integers(2, 4)), ny=int(rng.integers(2, 7)))
            spec["offset"] = [float(np.round(s * rng.uniform(3, 8), 3)), 0.0, float(np.round(s * rng.uniform(0.3, 1.5), 3))]
            if k % 6 == 5 and s == ns - 1:
                spec["root_y"] = float(np.round(rng.uniform(0.5, 3.0), 2))  # a symmetric surface that does not touch y=0
            surfs.append(dict(name="s%d" % s, symmetry=True, mesh=spec, with_viscous=bool(k % 2), with_wave=bool(k % 3 == 0), k_lam=float(rng.choice([0.0, 0.05, 0.4])),
                              CL0=float(np.round(rng.choice([0.0, rng.uniform(0, 0.2)]), 3)), CD0=float(np.round(rng.choice([0.0, 0.012]), 3)),
                              S_ref_type="projected" if k % 5 == 4 else "wetted", t_over_c_cp=[float(np.round(rng.uniform(0.08, 0.15), 3))]))
        flow = dict(alpha=float(np.round(rng.uniform(-4, 10), 2)), beta=0.0, v=float(rng.uniform(50, 260)), rho=float(rng.uniform(0.3, 1.2)),
                    Mach_number=float(np.round(rng.uniform(0.5, 0.9), 3)), re=1e6, cg=[float(np.round(rng.uniform(-1, 3), 3)), 0.0, float(np.round(rng.uniform(-1, 1), 3))])
        out.append(dict(kind="aero", surfaces=surfs, flow=flow, compressible=bool(k % 4 == 3), sref=(float(np.round(rng.uniform(5, 60), 2)) if k % 5 == 2 else None), _cost=4 * ns))
    # the same twins with the meshes routed through Geometry and scalar / single-control-point design variables active (the value of a
    # design variable means the same wing whether half of it or all of it is modelled); left halves rooted at y=0 only (C07/C13 findings)
    n = 12 if tier == "quick" else 300
    for k in range(n):
        ns = int(rng.choice([1, 1, 2]))
        surfs = []
        for s in range(ns):
            spec = M.random_spec(rng, half="left", nx=int(rng.integers(2, 4)), ny=int(rng.integers(2, 7)))
            spec["offset"] = [float(np.round(s * rng.uniform(3, 8), 3)), 0.0, float(np.round(s * rng.uniform(0.3, 1.5), 3))]
            spec["camber"] = 0.0
            sd = dict(name="s%d" % s, symmetry=True, mesh=spec, with_viscous=bool(k % 2), with_wave=False, k_lam=0.05, CL0=0.0, CD0=0.0,
                      S_ref_type="projected" if k % 5 == 4 else "wetted", t_over_c_cp=[float(np.round(rng.uniform(0.08, 0.15), 3))])
            pool = dict(taper=lambda: float(np.round(rng.uniform(0.3, 1.6), 3)), sweep=lambda: float(np.round(rng.uniform(-25, 35), 2)),
                        dihedral=lambda: float(np.round(rng.uniform(-8, 12), 2)), span=lambda: float(np.round(spec["span"] * rng.uniform(0.7, 1.4), 3)),
                        twist_cp=lambda: [float(np.round(rng.uniform(-4, 6), 2))], chord_cp=lambda: [float(np.round(rng.uniform(0.6, 1.5), 3))],
                        xshear_cp=lambda: [float(np.round(rng.uniform(-1, 1), 3))], zshear_cp=lambda: [float(np.round(rng.uniform(-1, 1), 3))])
            keys = sorted(pool)
            for q in rng.choice(keys, size=int(rng.integers(1, 4)), replace=False):
                sd[str(q)] = pool[str(q)]()
            if k % 4 == 0:
                sd["taper"] = pool["taper"]()
            surfs.append(sd)
        flow = dict(alpha=float(np.round(rng.uniform(-4, 10), 2)), beta=0.0, v=float(rng.uniform(50, 260)), rho=float(rng.uniform(0.3, 1.2)),
                    Mach_number=float(np.round(rng.uniform(0.3, 0.8), 3)), re=1e6, cg=[float(np.round(rng.uniform(-1, 3), 3)), 0.0, float(np.round(rng.uniform(-1, 1), 3))])
        out.append(dict(kind="aero", geom=True, surfaces=surfs, flow=flow, compressible=bool(k % 4 == 3), sref=None, _cost=5 * ns))
    # the mesh-manipulation helpers of openaerostruct.geometry.utils (the functions users and the repository's own tests apply to meshes
    # before handing them to the groups): a sequence of them applied to the half mesh (symmetry=True) and to the full mesh
    n = 10 if tier == "quick" else 240
    for k in range(n):
        spec = M.random_spec(rng, half="left", nx=int(rng.integers(2, 5)), ny=int(rng.integers(2, 8)))
        ops = [str(x) for x in rng.choice(["dihedral", "sweep", "taper", "stretch", "rotate", "scale_x", "shear_x", "shear_y", "shear_z"], size=int(rng.integers(2, 6)), replace=False)]
        if k % 2 == 0 and "rotate" not in ops:
            ops.append("rotate")
        if k % 2 == 0 and "dihedral" not in ops:
            ops.insert(0, "dihedral")
        out.append(dict(kind="helpers", mesh=spec, ops=ops, seed=int(rng.integers(1 << 30)), _cost=1))
    # generated multi-section wings: the symmetric half vs the full-span wing made of the same sections and their mirror images
    n = 10 if tier == "quick" else 200
    for k in range(n):
        ns = int(rng.integers(1, 4))
        out.append(dict(kind="msec_gen", ns=ns, nx=int(rng.integers(2, 5)), ny=[int(rng.integers(2, 6)) for _ in range(ns)],
                        span=[float(np.round(rng.uniform(0.5, 4.0), 3)) for _ in range(ns)], taper=[float(np.round(rng.uniform(0.4, 1.0), 3)) for _ in range(ns)],
                        sweep=[float(np.round(rng.uniform(-0.2, 0.5), 3)) for _ in range(ns)], root_chord=float(np.round(rng.uniform(0.5, 3.0), 3)), _cost=1))
    n = 12 if tier == "quick" else 270
    for k in range(n):
        fem = "tube" if k % 2 else "wingbox"
        spec = M.random_spec(rng, half="left", nx=int(rng.integers(2, 4)), ny=int(rng.integers(3, 6)))
        spec.update(camber=0.0, root_chord=float(np.round(max(spec["root_chord"], spec["span"] / 9.0), 3)), taper=max(spec["taper"], 0.5))
        npm = int(rng.choice([0, 0, 1, 2]))
        sd = dict(name="wing", symmetry=True, mesh=spec, fem_model_type=fem, with_viscous=True, with_wave=bool(k % 4 == 0), t_over_c_cp=[0.12],
                  struct_weight_relief=bool(k % 3 != 0), distributed_fuel_weight=bool(fem == "wingbox" and k % 4 < 2), exact_failure_constraint=bool(k % 4 < 2),
                  fem_origin=0.35)
        if fem == "tube":
            sd["thickness_cp"] = [float(np.round(rng.uniform(0.01, 0.04), 4))]
        else:
            sd["spar_thickness_cp"] = [float(np.round(rng.uniform(0.004, 0.01), 4))]
            sd["skin_thickness_cp"] = [float(np.round(rng.uniform(0.005, 0.02), 4))]
        c = dict(kind="as", surface=sd, npm=npm, flow=dict(alpha=float(np.round(rng.uniform(0, 6), 2)), v=float(rng.uniform(60, 160)), rho=float(rng.uniform(0.3, 0.8)),
                                                          Mach_number=float(np.round(rng.uniform(0.5, 0.88), 3)), load_factor=float(rng.choice([1.0, 2.5])), W0=float(rng.uniform(500, 5e4))),
                 compressible=bool(k % 5 == 4), _cost=14)
        if npm:
            b2 = spec["span"] / 2
            c["pm"] = [float(x) for x in 10 ** rng.uniform(1, 3, npm)]
            c["pm_loc"] = [[float(rng.uniform(-1, 2)), float(-rng.uniform(0.1, 0.9) * b2), float(rng.uniform(-0.5, 0.5))] for _ in range(npm)]
            c["thrust"] = [float(x) for x in 10 ** rng.uniform(2, 4, npm)]
        out.append(c)
    return out


def twin_surfaces(surfs):
    """full-span twins of symmetric surfaces: one mirrored full mesh, or two separate surfaces when the root is off y=0"""
    out = []
    for s in surfs:
        m = M.build(s["mesh"])
        left = s["mesh"]["half"] == "left"
        off = abs(float(s["mesh"].get("root_y", 0.0))) > 0
        base = {k: v for k, v in s.items() if k not in ("mesh", "symmetry", "name")}
        if off:
            a, b = (m, M.mirror(m)) if left else (M.mirror(m), m)
            out.append(dict(base, name=s["name"] + "_L", symmetry=False, mesh=dict(array=a.tolist()), _of=s["name"], _side="L"))
            out.append(dict(base, name=s["name"] + "_R", symmetry=False, mesh=dict(array=b.tolist()), _of=s["name"], _side="R"))
        else:
            full = M.full_from_left(m) if left else M.full_from_right(m)
            out.append(dict(base, name=s["name"], symmetry=False, mesh=dict(array=full.tolist()), _of=s["name"], _side="F"))
    return out


def half_slice(F_full, ny_half, left):
    """part of a full-span (.., ny_full-1 panels or ny_full nodes, ..) array that belongs to the modelled half"""
    return F_full[:, : ny_half - 1] if left else F_full[:, ny_half - 1:]


def run_aero(c, o):
    surfs = c["surfaces"]
    geom = bool(c.get("geom", False))
    H = zoo.build_aero(dict(surfaces=surfs, flow=c["flow"], compressible=c["compressible"], S_ref_total=c.get("sref")), geom=geom)
    zoo.run(H)
    tw = twin_surfaces(surfs)
    clean = [{k: v for k, v in s.items() if not k.startswith("_")} for s in tw]
    F = zoo.build_aero(dict(surfaces=clean, flow=c["flow"], compressible=c["compressible"], S_ref_total=c.get("sref")), geom=geom)
    zoo.run(F)
    base_tags = ["compressible" if c["compressible"] else "incompressible", "nsurf=%d" % len(surfs)] + (["geometry_dvs"] if geom else [])
    if geom:
        for s in surfs:
            mh = zoo.get(H, s["name"] + ".mesh")
            mf = zoo.get(F, s["name"] + ".mesh")
            dvs = sorted(k_ for k_ in s if k_ in ("taper", "sweep", "dihedral", "span", "twist_cp", "chord_cp", "xshear_cp", "zshear_cp"))
            o.close("aero/geometry_mesh", mh, mf[:, : mh.shape[1]], rtol=1e-11, scale=np.abs(mh).max(), tags=base_tags + dvs,
                    what="mesh of the half model vs the left half of the full-span mesh, design variables %s" % dvs)
            o.close("aero/geometry_mesh", M.mirror(mf), mf, rtol=1e-11, scale=np.abs(mh).max(), tags=base_tags + dvs, what="full-span mesh with design variables %s is mirror symmetric" % dvs)
    anyoff = any(abs(float(s["mesh"].get("root_y", 0.0))) > 0 for s in surfs)
    if anyoff:
        base_tags.append("some_root_off_y0")
    fs = max(np.abs(zoo.get(H, "aero.aero_states.%s_sec_forces" % s["name"])).max() for s in surfs)
    for s in surfs:
        n = s["name"]
        left = s["mesh"]["half"] == "left"
        off = abs(float(s["mesh"].get("root_y", 0.0))) > 0
        tags = base_tags + ["left" if left else "right"] + (["root_off_y0"] if off else []) + (["with_wave"] if s["with_wave"] else []) + (["symmetry"])
        fh = zoo.get(H, "aero.aero_states.%s_sec_forces" % n)
        nyh = s["mesh"]["ny"]
        if off:
            side = "_L" if left else "_R"
            ff = zoo.get(F, "aero.aero_states.%s%s_sec_forces" % (n, side))
            names = [n + "_L", n + "_R"]
        else:
            ff = half_slice(zoo.get(F, "aero.aero_states.%s_sec_forces" % n), nyh, left)
            names = [n]
        o.close("aero/sec_forces", fh, ff, rtol=1e-9, scale=fs, tags=tags, what="sectional forces on the modelled half of " + n)
        # per-surface quantities (a split twin contributes two surfaces: areas and forces add, coefficients are area weighted)
        Sf = [float(np.ravel(zoo.get(F, "aero.%s.S_ref" % m))[0]) for m in names]
        Sh = float(np.ravel(zoo.get(H, "aero.%s.S_ref" % n))[0])
        o.close("aero/S_ref", Sh, sum(Sf), rtol=1e-11, tags=tags)
        val = {}
        for q in ("CL", "CDi", "CDv", "CDw", "CD", "CL1"):
            vf = sum(float(np.ravel(zoo.get(F, "aero.%s_perf.%s" % (m, q)))[0]) * S for m, S in zip(names, Sf)) / sum(Sf)
            vh = float(np.ravel(zoo.get(H, "aero.%s_perf.%s" % (n, q)))[0])
            val[q] = (vh, vf)
            if q == "CD":
                continue
            o.close("aero/" + q, vh, vf, rtol=1e-9, atol=1e-13, tags=tags + [q], what="%s of %s: half %.10g full %.10g" % (q, n, vh, vf),
                    ratio=(vh / vf if vf else None))
        # total drag coefficient with the wave part taken out (the wave part is compared on its own above)
        o.close("aero/CD", val["CD"][0] - val["CDw"][0], val["CD"][1] - val["CDw"][1], rtol=1e-9, atol=1e-13, tags=tags, what="CD - CDw of " + n)
        for q in ("L", "D"):
            vf = sum(float(np.ravel(zoo.get(F, "aero.%s_perf.%s" % (m, q)))[0]) for m in names)
            o.close("aero/surface_L_D", float(np.ravel(zoo.get(H, "aero.%s_perf.%s" % (n, q)))[0]), vf, rtol=1e-9, scale=fs, tags=tags)
    ttags = list(base_tags)

    def wave_part(P, names_):
        """area-weighted wave-drag coefficient of the whole configuration"""
        S = [float(np.ravel(zoo.get(P, "aero.%s.S_ref" % m))[0]) for m in names_]
        W = [float(np.ravel(zoo.get(P, "aero.%s_perf.CDw" % m))[0]) for m in names_]
        return sum(a * b for a, b in zip(S, W)) / float(np.ravel(zoo.get(P, "aero.total_perf.S_ref_total"))[0])

    wh = wave_part(H, [s["name"] for s in surfs])
    wf = wave_part(F, [s["name"] for s in clean])
    fl = dict(zoo.FLOW_DEFAULT)
    fl.update(c["flow"])
    q_ = 0.5 * fl["rho"] * fl["v"] ** 2
    Sh_ = float(np.ravel(zoo.get(H, "aero.total_perf.S_ref_total"))[0])
    Sf_ = float(np.ravel(zoo.get(F, "aero.total_perf.S_ref_total"))[0])
    o.close("aero/S_ref_total", Sh_, Sf_, rtol=1e-11, tags=ttags)
    Dh = float(np.ravel(zoo.get(H, "aero.total_perf.D"))[0]) - q_ * Sh_ * wh
    Df = float(np.ravel(zoo.get(F, "aero.total_perf.D"))[0]) - q_ * Sf_ * wf
    o.close("aero/L_D", [float(np.ravel(zoo.get(H, "aero.total_perf.L"))[0]), Dh], [float(np.ravel(zoo.get(F, "aero.total_perf.L"))[0]), Df],
            rtol=1e-9, scale=fs, tags=ttags, what="total L and D (wave part removed)")
    o.close("aero/total_CL", zoo.get(H, "aero.CL"), zoo.get(F, "aero.CL"), rtol=1e-9, atol=1e-13, tags=ttags)
    o.close("aero/total_CD", float(np.ravel(zoo.get(H, "aero.CD"))[0]) - wh, float(np.ravel(zoo.get(F, "aero.CD"))[0]) - wf, rtol=1e-9, atol=1e-13, tags=ttags,
            what="total CD (wave part removed)")
    # CM is normalised with the MAC of the first surface; a split first surface changes that reference, so compare M and CM*MAC-free
    o.close("aero/M", zoo.get(H, "aero.total_perf.moment.M"), zoo.get(F, "aero.total_perf.moment.M"), rtol=1e-9, scale=fs * 10, tags=ttags)
    first_off = abs(float(surfs[0]["mesh"].get("root_y", 0.0))) > 0
    if not first_off:
        o.close("aero/CM", zoo.get(H, "aero.CM"), zoo.get(F, "aero.CM"), rtol=1e-9, atol=1e-12, tags=ttags)
    o.nontrivial = bool(fs > 0)


def run_as(c, o):
    sd = c["surface"]
    npm = c["npm"]
    hs = dict(sd)
    fl = dict(c["flow"])
    caseH = dict(surfaces=[hs], flow=fl, compressible=c["compressible"])
    m = M.build(sd["mesh"])
    full = M.full_from_left(m)
    fsd = dict(sd, symmetry=False, mesh=dict(array=full.tolist()))
    caseF = dict(surfaces=[fsd], flow=fl, compressible=c["compressible"])
    if npm:
        hs["n_point_masses"] = npm
        caseH.update(point_masses=c["pm"], point_mass_locations=c["pm_loc"], engine_thrusts=c["thrust"])
        fsd["n_point_masses"] = 2 * npm
        mir = [[p[0], -p[1], p[2]] for p in c["pm_loc"]]
        caseF.update(point_masses=c["pm"] + c["pm"], point_mass_locations=c["pm_loc"] + mir, engine_thrusts=c["thrust"] + c["thrust"])
    if sd["fem_model_type"] == "wingbox":
        caseH["fuel_vol_delta"] = True
        caseF["fuel_vol_delta"] = True
    H = zoo.build_as(caseH)
    zoo.run(H)
    F = zoo.build_as(caseF)
    zoo.run(F)
    # the repository's own mirroring helper must produce the full mesh used for the twin
    from openaerostruct.geometry.utils import getFullMesh

    o.close("as/getFullMesh", getFullMesh(left_mesh=m.copy()), full, rtol=1e-14)
    nyh = m.shape[1]
    fem = sd["fem_model_type"]
    tags = [fem, "symmetry"] + (["with_wave"] if sd["with_wave"] else []) + (["fuel"] if sd["distributed_fuel_weight"] else []) + (["relief"] if sd["struct_weight_relief"] else []) + ["npm=%d" % npm]
    if npm:
        # share of each point load that the inverse-distance^10 smearing puts on the nodes of the other half in the full model
        ynodes = zoo.get(F, "wing.nodes")[:, 1]
        cross = 0.0
        for pl in c["pm_loc"]:
            w = 1.0 / ((pl[1] - ynodes) ** 10 + 1e-10)
            cross = max(cross, float(w[ynodes > 1e-12].sum() / w.sum()))
        tags.append("pm_cross=%.3e" % cross)
    o.tags = tags
    R = 1e-7  # through the coupled solver (atol 1e-10 on the residual norm)
    g = lambda P, n: zoo.get(P, "AS_point_0." + n)  # noqa: E731
    fh = g(H, "coupled.aero_states.wing_sec_forces")
    ff = g(F, "coupled.aero_states.wing_sec_forces")[:, : nyh - 1]
    o.close("as/sec_forces", fh, ff, rtol=R)
    dh, df = g(H, "coupled.wing.disp"), g(F, "coupled.wing.disp")[:nyh]
    o.close("as/disp", dh[:, :3], df[:, :3], rtol=R, scale=np.abs(dh[:, :3]).max())
    o.close("as/disp", dh[:, 3:], df[:, 3:], rtol=R, scale=np.abs(dh[:, 3:]).max())
    vh, vf = g(H, "wing_perf.vonmises"), g(F, "wing_perf.vonmises")
    o.close("as/vonmises", vh, vf[: nyh - 1], rtol=R, what="von Mises on the modelled half")
    o.close("as/structural_mass", zoo.get(H, "wing.structural_mass"), zoo.get(F, "wing.structural_mass"), rtol=1e-11)
    o.close("as/cg", zoo.get(H, "wing.cg_location"), zoo.get(F, "wing.cg_location"), rtol=1e-11, scale=np.abs(m).max())
    # Breguet exponent a = R CT / (v L/D): fuel burn = W (exp(a) - 1) amplifies a relative state error by a, and has a pole at L/D -> 0+
    # (there the outputs computed from it - total cg, moment about that cg, L = W residual - are outside the performance model's domain)
    fl = dict(zoo.AS_FLOW_DEFAULT)
    fl.update(c["flow"])
    with np.errstate(all="ignore"):
        ld_ = float(np.ravel(g(H, "CL"))[0]) / float(np.ravel(g(H, "CD"))[0])
        a_br = fl["R"] * fl["CT"] / (fl["v"] * ld_) if ld_ > 0 else float("inf")
    in_domain = bool(np.isfinite(a_br) and a_br < 30.0)
    if in_domain:
        o.close("as/total_cg", g(H, "cg"), g(F, "cg"), rtol=R, scale=np.abs(m).max())
    else:
        o.count("cases_outside_breguet_domain_fuelburn_cg_CM_not_compared")
    wave = bool(sd["with_wave"])
    wh = float(np.ravel(g(H, "wing_perf.CDw"))[0])
    wf = float(np.ravel(g(F, "wing_perf.CDw"))[0])
    o.close("as/CL", g(H, "CL"), g(F, "CL"), rtol=R, atol=1e-12)
    o.close("as/CD", float(np.ravel(g(H, "CD"))[0]) - wh, float(np.ravel(g(F, "CD"))[0]) - wf, rtol=R, atol=1e-12, what="CD (wave part removed)")
    # fuel burn and the lift-equals-weight residual depend on the total CD, wave part included
    for q in ("fuelburn", "L_equals_W"):
        if in_domain:
            o.close("as/" + q, g(H, q), g(F, q), rtol=R * (1.0 + a_br), atol=1e-12, tags=[q] + (["depends_on_CDw"] if wave and (wh > 0 or wf > 0) else []))
    if in_domain:
        o.close("as/CM", g(H, "CM"), g(F, "CM"), rtol=R, atol=1e-9)
    for q in ("CDi", "CDv", "CDw", "CL1"):
        vh_, vf_ = float(np.ravel(g(H, "wing_perf." + q))[0]), float(np.ravel(g(F, "wing_perf." + q))[0])
        o.close("as/surface_" + q, vh_, vf_, rtol=R, atol=1e-13, tags=[q], ratio=(vh_ / vf_ if vf_ else None))
    o.close("as/S_ref", g(H, "coupled.wing.S_ref"), g(F, "coupled.wing.S_ref"), rtol=R)
    fhh, fff = g(H, "wing_perf.failure"), g(F, "wing_perf.failure")
    if sd["exact_failure_constraint"]:
        o.close("as/failure_exact_on_half", fhh, fff[: nyh - 1], rtol=R, atol=1e-9)
    else:
        # twice as many (mirror-symmetric) entries in the aggregate
        o.close("as/failure_ks_relation", np.ravel(fff)[0], np.ravel(fhh)[0] + np.log(2.0) / 100.0, rtol=0, atol=1e-7, tags=["ks_full_span"])
    if fem == "wingbox":
        o.close("as/fuel_vols", zoo.get(H, "wing.struct_setup.fuel_vols"), zoo.get(F, "wing.struct_setup.fuel_vols")[: nyh - 1], rtol=1e-11)
        # fuel-volume margin: enclosed volume minus required fuel volume of the whole aircraft
        vh = float(np.ravel(zoo.get(H, "wing_fuel_vol_delta.fuel_vol_delta"))[0])
        vf = float(np.ravel(zoo.get(F, "wing_fuel_vol_delta.fuel_vol_delta"))[0])
        o.close("as/fuel_vol_delta", vh, vf, rtol=R, atol=1e-9, tags=["fuel_vol_delta"] + (["depends_on_CDw"] if wave and (wh > 0 or wf > 0) else []),
                what="fuel_vol_delta half %.8g full %.8g" % (vh, vf), ratio=(vh / vf if vf else None))
    o.nontrivial = bool(np.abs(fh).max() > 0 and np.abs(dh).max() > 0)


def run_helpers(c, o):
    from openaerostruct.geometry import utils as U

    rng = np.random.default_rng(c["seed"])
    half = M.build(c["mesh"])
    full = M.full_from_left(half)
    ny = half.shape[1]
    span = float(c["mesh"]["span"])
    o.tags = ["helpers"] + list(c["ops"])
    for op in c["ops"]:
        if op == "dihedral":
            a = float(rng.uniform(-8, 12))
            U.dihedral(half, a, True)
            U.dihedral(full, a, False)
        elif op == "sweep":
            a = float(rng.uniform(-20, 35))
            U.sweep(half, a, True)
            U.sweep(full, a, False)
        elif op == "taper":
            t = float(rng.uniform(0.3, 1.5))
            U.taper(half, t, True)
            U.taper(full, t, False)
        elif op == "stretch":
            b = span * float(rng.uniform(0.6, 1.6))
            U.stretch(half, b, True)
            U.stretch(full, b, False)
        else:
            # spanwise distributions: the full-span one is the half one and its mirror image
            d = rng.uniform(-1, 1, ny) * (6.0 if op == "rotate" else 0.4)
            if op == "scale_x":
                d = 1.0 + 0.5 * d / 0.4
            df = np.concatenate([d, d[::-1][1:]])
            if op == "shear_y":
                # a lateral shift is antisymmetric under the reflection and must vanish on the symmetry plane; it stays below a third of
                # the smallest station spacing so that the stations keep their order and the left half stays on its side
                gap = float(np.min(np.abs(np.diff(half[0, :, 1])))) if ny > 1 else 1.0
                d = (d / 0.4) * 0.3 * gap
                d = d - d[-1]
                d *= 0.5
                df = np.concatenate([d, -d[::-1][1:]])
            if op == "rotate":
                U.rotate(half, d, True)
                U.rotate(full, df, False)
            else:
                getattr(U, op)(half, d)
                getattr(U, op)(full, df)
    scale = max(np.abs(full).max(), 1.0)
    o.close("helpers/half_is_left_of_full", full[:, :ny], half, rtol=1e-12, scale=scale, what="helpers %s on the full mesh vs on the half mesh" % c["ops"])
    o.close("helpers/full_mirror_symmetric", M.mirror(full), full, rtol=1e-12, scale=scale, what="full mesh after %s" % c["ops"])
    o.nontrivial = True


def run_msec_gen(c, o):
    from openaerostruct.geometry import geometry_mesh_gen as G

    ns = c["ns"]

    def surf(sym, ny, span, taper, sweep, root_section):
        n_ = len(ny)
        return {"name": "surface", "is_multi_section": True, "num_sections": n_, "sec_name": ["sec%d" % i for i in range(n_)], "symmetry": sym, "S_ref_type": "wetted",
                "root_section": root_section, "taper": np.array(taper), "span": np.array(span), "sweep": np.array(sweep), "root_chord": c["root_chord"], "meshes": "gen-meshes",
                "nx": c["nx"], "ny": np.array(ny), "CL0": 0.0, "CD0": 0.0, "k_lam": 0.05, "c_max_t": 0.303, "with_viscous": False, "with_wave": False, "groundplane": False}

    half, _ = G.generate_mesh(surf(True, c["ny"], c["span"], c["taper"], c["sweep"], ns - 1))
    # the full-span wing: the same sections (tip ... root) followed by their mirror images (root ... tip); on the right the sweep angle
    # of a section is measured with the opposite sign of y
    full, _ = G.generate_mesh(surf(False, c["ny"] + c["ny"][::-1], c["span"] + c["span"][::-1], c["taper"] + c["taper"][::-1],
                                   c["sweep"] + [-x for x in c["sweep"][::-1]], ns - 1))
    o.tags = ["msec_gen", "ns=%d" % ns]
    scale = max(np.abs(full).max(), 1.0)
    nyh = half.shape[1]
    if full.shape != (half.shape[0], 2 * nyh - 1, 3):
        o.true("gen/multisection_half_full", False, "full-span generated mesh has shape %s, expected %s" % (full.shape, (half.shape[0], 2 * nyh - 1, 3)))
        return
    o.close("gen/multisection_half_full", full[:, :nyh], half, rtol=1e-12, scale=scale, what="left half of the generated full-span multi-section wing vs the symmetric half")
    o.close("gen/multisection_half_full", M.mirror(full), full, rtol=1e-12, scale=scale, what="generated full-span multi-section wing is mirror symmetric")
    o.nontrivial = True


def run_case(c):
    o = Obs()
    {"aero": run_aero, "as": run_as, "msec_gen": run_msec_gen, "helpers": run_helpers}[c["kind"]](c, o)
    return o
