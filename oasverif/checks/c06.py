"""C06 - aerodynamic results obey dynamic-pressure, scaling and translation laws."""
import numpy as np

from ..obs import Obs
from .. import meshes as M
from .. import zoo

LEVEL = "exploration"
RULE = ("cases = seeded random aero configurations (1-2 surfaces, symmetric halves or full span, viscous on/off, ground "
        "effect, compressible, rotational) each run under (a) density x a, speed x b, a,b in 1e-2..1e2; (b) all lengths x k "
        "with Reynolds number per length / k, ground height and moment reference x k, k in 1e-2..1e2 plus the ladder "
        "1e-6..1e6; (c) translation of all surfaces and the reference point (x,z only under symmetry; along the free stream "
        "under ground effect); (d) the same SI values supplied in other units; plus the wind-axis decomposition and "
        "normalisation identities on every run.  Non-trivial = non-zero forces and every transformation evaluated")
ASSUMPTIONS = ["dimensional analysis of the incompressible/Prandtl-Glauert VLM; OpenMDAO unit conversion"]
REQUIRED_FAMILIES = ["qlaw/sec_forces", "qlaw/coefficients", "scale/sec_forces", "scale/coefficients", "translate/sec_forces",
                     "translate/coefficients", "decomp/L", "decomp/D", "decomp/CL1_CDi", "ladder/coefficients", "units/identical"]
LEVEL_TEXT = ("real AeroPoint models are executed in transformed pairs (density/speed, geometric scale over 12 decades, "
              "translation, units) and their forces and coefficients compared under the law each transformation implies; "
              "wind-axis decomposition and coefficient normalisation are recomputed on every run")
TECHNIQUE = "runtime monitoring: metamorphic relations (q-law, geometric similarity, translation, unit change) + decomposition identities"

COEFS = ["CL", "CD", "CM"]
SCOEFS = ["CL1", "CDi", "CDv", "CDw", "CL", "CD"]


def cases(tier, seed):
    rng = np.random.default_rng(6000 + seed)
    out = []
    n = 28 if tier == "quick" else 720
    for k in range(n):
        mode = ["plain", "sym", "ground", "compressible", "rotational", "sym"][k % 6]
        symc = mode in ("sym", "ground")
        ns = int(rng.choice([1, 2, 3]))
        surfs = []
        for s in range(ns):
            half = str(rng.choice(["left", "right"])) if symc else "full"
            spec = M.random_spec(rng, half=half, nx=int(rng.integers(2, 4)), ny=int(rng.integers(2, 7)), odd_full=False)
            spec["offset"] = [float(np.round(s * rng.uniform(3, 8), 3)), 0.0, float(np.round(s * rng.uniform(0.3, 1.5), 3))]
            sd = dict(name="s%d" % s, symmetry=symc, mesh=spec, with_viscous=bool(rng.integers(2)), with_wave=bool(rng.integers(2)),
                      CL0=float(rng.choice([0.0, float(np.round(rng.uniform(-0.1, 0.3), 3))])), CD0=float(rng.choice([0.0, float(np.round(rng.uniform(0.005, 0.02), 4))])),
                      k_lam=float(rng.choice([0.0, 0.05, 0.5, 1.0])))
            if mode == "ground":
                sd["groundplane"] = True
            surfs.append(sd)
        flow = dict(alpha=float(np.round(rng.uniform(-5, 10), 2)), beta=0.0 if symc else float(np.round(rng.uniform(-8, 8), 2)),
                    v=float(10 ** rng.uniform(1, 2.3)), rho=float(10 ** rng.uniform(-1, 0.2)), Mach_number=float(np.round(rng.uniform(0.2, 0.85), 3)),
                    re=float(10 ** rng.uniform(5, 7)), cg=[float(x) for x in np.round(rng.uniform(-1, 2, 3), 3)])
        if symc:
            flow["cg"][1] = 0.0
        if mode == "ground":
            flow["height_agl"] = float(np.round(rng.uniform(4, 30), 2))
        if mode == "rotational":
            flow["omega"] = [float(x) for x in np.round(rng.uniform(-0.3, 0.3, 3), 4)]
        out.append(dict(kind="laws", mode=mode, surfaces=surfs, flow=flow, sref=(float(np.round(rng.uniform(5, 60), 2)) if k % 3 == 1 else None), a=float(10 ** rng.uniform(-2, 2)), b=float(10 ** rng.uniform(-2, 2)),
                        k=float(10 ** rng.uniform(-2, 2)), t=[float(x) for x in rng.normal(size=3) * 10 ** rng.uniform(0, 3)], _cost=6 * ns))
    n = 4 if tier == "quick" else 60
    for k in range(n):
        symc = bool(k % 2)
        spec = M.random_spec(rng, half="left" if symc else "full", nx=int(rng.integers(2, 4)), ny=int(rng.integers(3, 7)))
        out.append(dict(kind="ladder", surfaces=[dict(name="s0", symmetry=symc, mesh=spec, with_viscous=True, k_lam=0.05)],
                        flow=dict(alpha=float(np.round(rng.uniform(1, 8), 2)), beta=0.0, v=50.0, rho=1.0, Mach_number=0.3, re=1e6, cg=[0.3, 0.0, 0.1]), _cost=12))
    return out


def scaled_surfaces(surfs, k=1.0, t=(0, 0, 0)):
    out = []
    for s in surfs:
        m = M.build(s["mesh"]) * k + np.asarray(t, float)
        out.append(dict(s, mesh=dict(array=m.tolist())))
    return out


def run(c, surfs, flow, units=None, sref_scale=1.0):
    case = dict(surfaces=surfs, flow=flow, compressible=(c["mode"] == "compressible"), rotational=(c["mode"] == "rotational"))
    if c.get("sref") is not None:
        case["S_ref_total"] = c["sref"] * sref_scale  # a user-specified reference area is a length squared
    if units:
        case["units"] = units
    prob = zoo.build_aero(case, geom=False)
    zoo.run(prob)
    res = dict(F={}, S={}, coef={}, scoef={})
    for s in prob._oas_surfaces:
        n = s["name"]
        res["F"][n] = zoo.get(prob, "aero.aero_states.%s_sec_forces" % n)
        res["S"][n] = float(np.ravel(zoo.get(prob, "aero.%s.S_ref" % n))[0])
        res["scoef"][n] = np.array([float(np.ravel(zoo.get(prob, "aero.%s_perf.%s" % (n, q)))[0]) for q in SCOEFS])
        res["L_" + n] = float(np.ravel(zoo.get(prob, "aero.%s_perf.L" % n))[0])
        res["D_" + n] = float(np.ravel(zoo.get(prob, "aero.%s_perf.D" % n))[0])
        res["Cl_" + n] = zoo.get(prob, "aero.%s_perf.Cl" % n)
        res["widths_" + n] = zoo.get(prob, "aero.%s.widths" % n)
        res["chords_" + n] = zoo.get(prob, "aero.%s.chords" % n)
    res["coef"] = np.concatenate([np.ravel(zoo.get(prob, "aero." + q)) for q in COEFS])
    res["LD"] = np.array([float(np.ravel(zoo.get(prob, "aero.total_perf." + q))[0]) for q in ("L", "D")])
    res["surfaces"] = prob._oas_surfaces
    return res


def compare(o, fam, r1, r0, fscale, tags, rtol=1e-9):
    f0 = max(np.abs(v).max() for v in r0["F"].values())
    for n in r0["F"]:
        o.close(fam + "/sec_forces", r1["F"][n], r0["F"][n] * fscale, rtol=rtol, scale=f0 * fscale, tags=tags)
        o.close(fam + "/surface_coefficients", r1["scoef"][n], r0["scoef"][n], rtol=rtol, atol=1e-13, tags=tags)
    o.close(fam + "/coefficients", r1["coef"], r0["coef"], rtol=rtol, atol=1e-12, tags=tags)
    o.close(fam + "/L_D", r1["LD"], r0["LD"] * fscale, rtol=rtol, scale=np.abs(r0["LD"]).max() * fscale, tags=tags)


def run_laws(c, o):
    surfs, flow = c["surfaces"], c["flow"]
    tags = [c["mode"], "nsurf=%d" % len(surfs)] + (["user_sref"] if c.get("sref") is not None else [])
    r0 = run(c, surfs, flow)
    fl = dict(zoo.FLOW_DEFAULT)
    fl.update(flow)
    q = 0.5 * fl["rho"] * fl["v"] ** 2
    al, be = np.deg2rad(fl["alpha"]), np.deg2rad(fl["beta"])
    # ---- decomposition and normalisation on the base run
    for s in r0["surfaces"]:
        n = s["name"]
        F = r0["F"][n].reshape(-1, 3).sum(axis=0) * (2.0 if s["symmetry"] else 1.0)
        L = -F[0] * np.sin(al) + F[2] * np.cos(al)
        D = F[0] * np.cos(al) * np.cos(be) - F[1] * np.sin(be) + F[2] * np.sin(al) * np.cos(be)
        fs = np.abs(r0["F"][n]).sum()
        o.close("decomp/L", r0["L_" + n], L, rtol=1e-11, scale=fs, tags=tags)
        o.close("decomp/D", r0["D_" + n], D, rtol=1e-11, scale=fs, tags=tags)
        o.close("decomp/CL1_CDi", r0["scoef"][n][:2], np.array([L, D]) / (q * r0["S"][n]), rtol=1e-11, scale=fs / (q * r0["S"][n]), tags=tags)
        # sectional lift coefficient
        strip = r0["F"][n].sum(axis=0)
        w = np.ravel(r0["widths_" + n])
        ch = np.ravel(r0["chords_" + n])
        cl = (-strip[:, 0] * np.sin(al) + strip[:, 2] * np.cos(al)) / w / (q * 0.5 * (ch[1:] + ch[:-1]))
        o.close("decomp/Cl", np.ravel(r0["Cl_" + n]), cl, rtol=1e-11, scale=np.abs(cl).max() + 1e-300, tags=tags)
    Stot = sum(r0["S"].values()) if c.get("sref") is None else c["sref"]
    o.close("decomp/total_area_weighted", r0["coef"][:2], [sum(r0["scoef"][n][4] * r0["S"][n] for n in r0["S"]) / Stot, sum(r0["scoef"][n][5] * r0["S"][n] for n in r0["S"]) / Stot],
            rtol=1e-12, atol=1e-15, tags=tags)
    # aircraft lift and drag are q x sum(C_i S_i) of the surfaces' own coefficients, whatever reference area normalises the aircraft coefficients
    o.close("decomp/aircraft_L_D", r0["LD"], [q * sum(r0["scoef"][n][4] * r0["S"][n] for n in r0["S"]), q * sum(r0["scoef"][n][5] * r0["S"][n] for n in r0["S"])],
            rtol=1e-12, atol=1e-12, tags=tags)
    # ---- (a) density and speed (Mach number and Reynolds number are independent inputs of the model and stay fixed)
    a, b = c["a"], c["b"]
    fa = dict(flow, rho=fl["rho"] * a, v=fl["v"] * b)
    if c["mode"] == "rotational":
        fa["omega"] = [w * b for w in flow["omega"]]  # rates scale with speed for similarity
    compare(o, "qlaw", run(c, surfs, fa), r0, a * b * b, tags)
    # ---- (b) geometric similarity
    k = c["k"]
    fk = dict(flow, re=fl["re"] / k, cg=[x * k for x in fl["cg"]])
    if "height_agl" in flow:
        fk["height_agl"] = flow["height_agl"] * k
    if c["mode"] == "rotational":
        fk["omega"] = [w / k for w in flow["omega"]]
    compare(o, "scale", run(c, scaled_surfaces(surfs, k), fk, sref_scale=k * k), r0, k * k, tags)
    # ---- (c) translation (x,z only when a symmetry plane exists; along the free stream when a ground plane exists)
    t = np.array(c["t"])
    if c["mode"] in ("sym", "ground"):
        t[1] = 0.0
    if c["mode"] == "ground":
        u = np.array([np.cos(al), 0.0, np.sin(al)])
        t = u * (t @ u)
    ft = dict(flow, cg=[x + dx for x, dx in zip(fl["cg"], t)])
    span = max(s["mesh"]["span"] for s in surfs)
    rt = 1e-8 * max(1.0, np.linalg.norm(t) / span)  # cancellation when coordinates are large compared with the wing (and near-singular pairs in multi-surface cases)
    compare(o, "translate", run(c, scaled_surfaces(surfs, 1.0, t), ft), r0, 1.0, tags, rtol=rt)
    # ---- (d) the same SI values supplied in other units
    un = dict(v="knot", rho="slug/ft**3", alpha="rad", re="1/ft", cg="ft")
    if "height_agl" in flow:
        un["height_agl"] = "ft"
    compare(o, "units", run(c, surfs, flow, units=un), r0, 1.0, tags, rtol=1e-7)
    r_u = run(c, surfs, flow, units=un)
    o.close("units/identical", r_u["coef"], r0["coef"], rtol=1e-7, atol=1e-12, tags=tags)
    o.nontrivial = bool(max(np.abs(v).max() for v in r0["F"].values()) > 0)


def run_ladder(c, o):
    c = dict(c, mode="plain")
    surfs, flow = c["surfaces"], c["flow"]
    r0 = run(c, surfs, flow)
    worst = {}
    for e in range(-6, 7):
        if e == 0:
            continue
        k = 10.0 ** e
        fk = dict(flow, re=flow["re"] / k, cg=[x * k for x in flow["cg"]])
        r = run(c, scaled_surfaces(surfs, k), fk)
        tags = ["k=1e%d" % e]
        o.close("ladder/coefficients", r["coef"], r0["coef"], rtol=1e-8, atol=1e-12, tags=tags, what="coefficients at geometric scale 1e%d" % e)
        n = "s0"
        o.close("ladder/sec_forces", r["F"][n], r0["F"][n] * k * k, rtol=1e-8, tags=tags, what="forces at geometric scale 1e%d" % e)
        worst[e] = float(np.abs(r["coef"] - r0["coef"]).max())
    o.info = dict(max_coef_dev_by_decade=worst)
    o.nontrivial = True


def run_case(c):
    o = Obs()
    {"laws": run_laws, "ladder": run_ladder}[c["kind"]](c, o)
    return o


# ---------------------------------------------------------------------------------------------- suite workload
# second workload source: the repository's own tests run under the monitor plugin (oasverif/plugin.py, oasverif/monitors.py);
# only the monitors that serve this property decide here
_cases_generated = cases
_run_case_generated = run_case


def cases(tier, seed):
    return _cases_generated(tier, seed) + [dict(kind="suite", tier=tier, _cost=200)]


def run_case(c):
    if c["kind"] != "suite":
        return _run_case_generated(c)
    from .. import suite

    o = Obs()
    suite.observe(o, "C06", c.get("tier", "quick"))
    return o
