"""C10 - structural displacements satisfy beam equilibrium with a clamped root."""
import warnings

import numpy as np

from ..obs import Obs
from .. import meshes as M
from .. import zoo
from ..refs import refframe

LEVEL = "exploration"
RULE = ("cases = (beam) random node lines (swept, dihedral, kinked, non-uniform, >=5 deg off the x axis), ny 2..15, half "
        "and full span, independent random A,Iy,Iz,J per element, E,G over 3 decades, random 6-component nodal loads "
        ">= 1 N, fed to the repository's AssembleKGroup + SpatialBeamStates and compared with an independent frame "
        "assembly (displacements, equilibrium residual, clamped root, linearity, Maxwell-Betti, rotation invariance "
        "for Iy=Iz); (closed) straight cantilevers against closed-form tip force/moment/torque/axial solutions at "
        "every node; (alone) SpatialBeamAlone tube/wingbox models with their own section properties.  Non-trivial = "
        "non-zero displacement and all comparisons evaluated")
ASSUMPTIONS = ["reference frame element (oasverif/refs/refframe.py), validated against the cantilever closed form in the self test",
               "local-axis convention e2 = e1 x X shared with the repository (matters only for Iy != Iz)"]
REQUIRED_FAMILIES = ["pair/disp_vs_reference", "beam/disp_vs_reference", "beam/equilibrium", "beam/root_clamped", "beam/linearity", "beam/maxwell_betti",
                     "beam/rotation_invariance", "closed/tip_force", "closed/tip_moment", "closed/torque", "closed/axial",
                     "alone/disp_vs_reference"]
LEVEL_TEXT = ("the repository's stiffness assembly and FEM solve are executed on generated beams and loads and compared with "
              "an independently assembled textbook frame, with closed-form cantilever solutions, and with themselves under "
              "superposition, reciprocity and rigid rotation")
TECHNIQUE = "runtime monitoring: reference-model oracle (independent 3-D frame) + closed forms + metamorphic linearity/reciprocity/rotation relations"


# ---------------------------------------------------------------------------------------------- generators
def node_line(rng, ny, half):
    """random spar node line with spanwise coordinate increasing, root at the last (half) or centre (full) node"""
    span = rng.uniform(4, 30)
    if half == "full":
        nh = (ny - 1) // 2
        e = np.cumsum(0.3 + rng.random(nh))
        e = e / e[-1]
        if rng.random() < 0.5:
            y = np.concatenate([-e[::-1], [0.0], e]) * span / 2
        else:
            # not mirror symmetric: unequal halves and a lateral offset; the clamped node is still the middle node
            e2 = np.cumsum(0.3 + rng.random(nh))
            e2 = e2 / e2[-1] * rng.uniform(0.3, 1.0)
            y = np.concatenate([-e[::-1], [0.0], e2]) * span / 2 + rng.uniform(-1.0, 1.0) * span
    else:
        e = np.cumsum(0.3 + rng.random(ny - 1))
        e = np.concatenate([[0.0], e / e[-1]])
        y = -(e[::-1]) * span / 2
    sweep = np.tan(np.deg2rad(rng.uniform(-30, 40)))
    dih = np.tan(np.deg2rad(rng.uniform(-10, 20)))
    yc = y - y[(ny - 1) // 2] if half == "full" else y
    x = sweep * np.abs(yc) + rng.normal(0, 0.02 * span, ny) * (rng.random() < 0.5)
    z = dih * np.abs(yc) + rng.normal(0, 0.01 * span, ny) * (rng.random() < 0.5)
    if rng.random() < 0.3:  # a kink (winglet-like) on the outer part
        z = z + 0.3 * np.maximum(np.abs(yc) - 0.35 * span, 0.0)
    nodes = np.stack([x, y, z], axis=1)
    d = np.diff(nodes, axis=0)
    cosx = np.abs(d[:, 0]) / np.linalg.norm(d, axis=1)
    if np.any(cosx > np.cos(np.deg2rad(5.0))):
        return node_line(rng, ny, half)
    return nodes


def rand_loads(rng, ny, mag=1e4):
    L = rng.uniform(-1, 1, (ny, 6)) * mag
    L = np.sign(L) * np.maximum(np.abs(L), 1.0)
    return L


def cases(tier, seed):
    rng = np.random.default_rng(10000 + seed)
    out = []
    n = 60 if tier == "quick" else 1800
    for k in range(n):
        half = "full" if k % 3 == 0 else "left"
        ny = int(rng.integers(2, 16))
        if half == "full":
            ny = max(3, ny | 1)
        out.append(dict(kind="beam", ny=ny, half=half, seed=int(rng.integers(1 << 30)), iso=bool(k % 4 == 1),
                        logE=float(rng.uniform(9, 12)), fem=str(rng.choice(["tube", "wingbox"])), load_units=["N", "N", "kN", "lbf"][k % 4]))
    for k in range(8 if tier == "quick" else 60):
        out.append(dict(kind="pair", ny=int(2 * rng.integers(1, 5) + 1), seed=int(rng.integers(1 << 30)), order=int(k % 2)))
    for k in range(16 if tier == "quick" else 360):
        out.append(dict(kind="closed", ny=int(rng.integers(2, 12)), half="left" if k % 2 else "full", seed=int(rng.integers(1 << 30))))
    for k in range(12 if tier == "quick" else 300):
        half = "full" if k % 3 == 0 else "left"
        spec = M.random_spec(rng, half=half, nx=int(rng.integers(2, 4)), ny=int(rng.integers(3, 10)))
        if spec["ny"] < 3:
            spec["ny"] = 3
        spec["camber"] = 0.0
        fem = "tube" if k % 2 else "wingbox"
        out.append(dict(kind="alone", surface=dict(name="wing", symmetry=(half != "full"), mesh=spec, fem_model_type=fem,
                                                   fem_origin=float(np.round(rng.uniform(0.1, 0.7), 3))),
                        load_seed=int(rng.integers(1 << 30)), _cost=4))
    return out


# ---------------------------------------------------------------------------------------------- the real code
def beam_problem(nodes, sym, E, G, fem="tube", load_units="N"):
    import openmdao.api as om
    from openaerostruct.structures.assemble_k_group import AssembleKGroup
    from openaerostruct.structures.spatial_beam_states import SpatialBeamStates

    ny = len(nodes)
    mesh = np.zeros((2, ny, 3))
    mesh[0] = nodes
    mesh[1] = nodes + np.array([1.0, 0, 0])
    surf = dict(name="wing", symmetry=sym, mesh=mesh, fem_model_type=fem, E=E, G=G, mrho=1.0, struct_weight_relief=False,
                distributed_fuel_weight=False, fem_origin=0.0)
    p = om.Problem(reports=False)
    ivc = om.IndepVarComp()
    ivc.add_output("nodes", val=nodes, units="m")
    for q in ("A", "Iy", "Iz", "J"):
        ivc.add_output(q, val=np.ones(ny - 1), units="m**2" if q == "A" else "m**4")
    ivc.add_output("loads", val=np.zeros((ny, 6)), units=load_units)  # the user may state the loads in any force unit
    p.model.add_subsystem("ivc", ivc, promotes=["*"])
    p.model.add_subsystem("assembly", AssembleKGroup(surface=surf), promotes=["*"])
    p.model.add_subsystem("states", SpatialBeamStates(surface=surf), promotes_inputs=["local_stiff_transformed", "loads"],
                          promotes_outputs=["disp"])
    with warnings.catch_warnings():
        warnings.simplefilter("ignore")
        p.setup()
    p._load_units = load_units
    return p


def solve_oas(p, props, loads):
    for q in ("A", "Iy", "Iz", "J"):
        p.set_val(q, props[q])
    p.set_val("loads", loads, units="N")  # converted by the framework into the unit the source declares
    zoo.run(p)
    return np.array(p.get_val("disp")).copy()


def scaled_close(o, fam, u, uref, rtol, what=None, **kw):
    if what is not None:
        kw["what"] = what
    return _scaled_close(o, fam, u, uref, rtol, **kw)


def _scaled_close(o, fam, u, uref, rtol, **kw):
    """translations and rotations compared on their own scales"""
    o.close(fam, u[:, :3], uref[:, :3], rtol=rtol, scale=max(np.abs(uref[:, :3]).max(), 1e-300), **kw)
    o.close(fam, u[:, 3:], uref[:, 3:], rtol=rtol, scale=max(np.abs(uref[:, 3:]).max(), 1e-300), **kw)


def run_beam(c, o):
    rng = np.random.default_rng(c["seed"])
    ny, half = c["ny"], c["half"]
    sym = half != "full"
    nodes = node_line(rng, ny, half)
    root = ny - 1 if sym else (ny - 1) // 2
    E = 10 ** c["logE"]
    G = E / rng.uniform(2.0, 3.0)
    tags = [half, "iso" if c["iso"] else "aniso", c["fem"]]
    o.tags = tags
    free = np.array([d for d in range(6 * ny) if d // 6 != root])
    f1 = rand_loads(rng, ny)
    f2 = rand_loads(rng, ny)
    for attempt in range(20):
        # section properties are re-drawn until the (diagonally scaled) stiffness matrix is well enough conditioned
        # for two direct solvers to be comparable; the draw is part of the seeded case, not a verdict
        r = 10 ** rng.uniform(-1.5, -0.5, ny - 1)
        props = dict(A=np.pi * r**2 * rng.uniform(0.05, 1, ny - 1), Iy=r**4 * rng.uniform(0.1, 1, ny - 1), J=r**4 * rng.uniform(0.1, 2, ny - 1))
        props["Iz"] = props["Iy"].copy() if c["iso"] else r**4 * rng.uniform(0.1, 1, ny - 1)
        uref, K = refframe.solve(nodes, E, G, props["A"], props["Iy"], props["Iz"], props["J"], f1, root)
        Kf = K[np.ix_(free, free)]
        dsc = 1.0 / np.sqrt(np.diag(Kf))
        cond = float(np.linalg.cond(Kf * np.outer(dsc, dsc)))
        if cond < 1e8:
            break
    else:
        o.info["skipped_ill_conditioned"] = cond
        return
    rt = max(1e-7, 1e3 * np.finfo(float).eps * cond)  # two direct solves cannot agree better than ~cond*eps
    o.info["cond_scaled"] = cond
    p = beam_problem(nodes, sym, E, G, c["fem"], load_units=c.get("load_units", "N"))
    tags.append("loads_in_" + c.get("load_units", "N"))
    u1 = solve_oas(p, props, f1)
    scaled_close(o, "beam/disp_vs_reference", u1, uref, rt)
    # equilibrium of the reported displacements in the independently assembled frame (off the root)
    res = K @ u1.reshape(-1) - f1.reshape(-1)
    bound = np.abs(K) @ np.abs(u1.reshape(-1))
    o.close("beam/equilibrium", res[free] / np.maximum(bound[free], 1e-300), 0.0, rtol=0, atol=1e-9)
    o.close("beam/root_clamped", u1[root], 0.0, rtol=0, atol=1e-9 * np.abs(u1).max())
    # linearity
    a, b = rng.uniform(-3, 3, 2)
    u2 = solve_oas(p, props, f2)
    u12 = solve_oas(p, props, a * f1 + b * f2)
    scaled_close(o, "beam/linearity", u12, a * u1 + b * u2, rt)
    # loads of very different magnitude on different DOFs (all far above the 1e-6 N zeroing threshold): the right-hand
    # side handed to the solver must carry every one of them unchanged, and the small ones must still produce their response
    fbig = np.zeros((ny, 6))
    fsmall = np.zeros((ny, 6))
    tipn = 0 if sym else ny - 1
    fbig[tipn, 0] = 2.5e5
    fsmall[tipn, 2] = 0.1
    fsmall[tipn, 4] = 0.05
    ub = solve_oas(p, props, fbig + fsmall)
    rhs = np.array(p.get_val("states.forces")).reshape(-1)[: 6 * ny]
    o.close("beam/rhs_carries_all_loads", rhs, (fbig + fsmall).reshape(-1), rtol=0, atol=0, what="loads >= 0.05 N must reach the solver unchanged")
    us = solve_oas(p, props, fsmall)
    ubb = solve_oas(p, props, fbig)
    scaled_close(o, "beam/small_load_not_lost", ub - ubb, us, max(0.05, rt * 1e7), what="response to a 0.1 N load in the presence of a 2.5e5 N load")
    # Maxwell-Betti on a random subset of free DOFs
    dofs = rng.choice(free, size=min(6, len(free)), replace=False)
    F = np.zeros((len(dofs), len(dofs)))
    P = 1.0e3
    for jj, dj in enumerate(dofs):
        f = np.zeros(6 * ny)
        f[dj] = P
        uj = solve_oas(p, props, f.reshape(ny, 6)).reshape(-1)
        F[:, jj] = uj[dofs] / P
    sc = np.sqrt(np.abs(np.outer(np.diag(F), np.diag(F))))
    o.close("beam/maxwell_betti", (F - F.T) / np.maximum(sc, 1e-300), 0.0, rtol=0, atol=max(1e-7, rt))
    if c["iso"]:
        # rotate structure and loads together (keeping every element >= 5 deg off the x axis)
        for _ in range(20):
            Q, _r = np.linalg.qr(rng.normal(size=(3, 3)))
            if np.linalg.det(Q) < 0:
                Q[:, 0] *= -1
            nr = nodes @ Q.T
            d = np.diff(nr, axis=0)
            if np.all(np.abs(d[:, 0]) / np.linalg.norm(d, axis=1) < np.cos(np.deg2rad(5.0))):
                break
        else:
            Q = np.eye(3)
        pr = beam_problem(nodes @ Q.T, sym, E, G, c["fem"])
        fr = np.hstack([f1[:, :3] @ Q.T, f1[:, 3:] @ Q.T])
        ur = solve_oas(pr, props, fr)
        scaled_close(o, "beam/rotation_invariance", ur, np.hstack([u1[:, :3] @ Q.T, u1[:, 3:] @ Q.T]), rt)
    o.info = dict(ny=ny, max_u=float(np.abs(u1[:, :3]).max()))
    o.nontrivial = bool(np.abs(u1).max() > 0)


def run_closed(c, o):
    rng = np.random.default_rng(c["seed"])
    ny, half = c["ny"], c["half"]
    sym = half != "full"
    if not sym:
        ny = max(3, ny | 1)
    # straight beam, random direction >= 5 deg off the x axis, non-uniform nodes
    while True:
        e1 = rng.normal(size=3)
        e1 /= np.linalg.norm(e1)
        if abs(e1[0]) < np.cos(np.deg2rad(8.0)) and abs(e1[1]) > 0.2:
            break
    if e1[1] < 0:
        e1 = -e1
    Lh = rng.uniform(2, 20)
    if sym:
        s = np.concatenate([[0.0], np.cumsum(0.3 + rng.random(ny - 1))])
        s = s / s[-1] * Lh  # distance from the root
        nodes = (-(s[::-1]))[:, None] * e1  # root last, tip first
        root = ny - 1
        tip = 0
        dist = s[::-1]
        out_dir = -1.0
    else:
        nh = (ny - 1) // 2
        s = np.cumsum(0.3 + rng.random(nh))
        s = s / s[-1] * Lh
        coord = np.concatenate([-s[::-1], [0.0], s])
        nodes = coord[:, None] * e1
        root = nh
        tip = ny - 1
        dist = np.abs(coord)
        out_dir = 1.0
    R = refframe.triad(nodes[0], nodes[1])  # rows e1,e2,e3 of the element direction (node 0 -> node 1)
    E = 10 ** rng.uniform(9, 11.5)
    G = E / 2.6
    A, Iy, Iz, J = 10 ** rng.uniform(-4, -2), 10 ** rng.uniform(-7, -5), 10 ** rng.uniform(-7, -5), 10 ** rng.uniform(-7, -5)
    props = dict(A=np.full(ny - 1, A), Iy=np.full(ny - 1, Iy), Iz=np.full(ny - 1, Iz), J=np.full(ny - 1, J))
    p = beam_problem(nodes, sym, E, G)
    ax = R[0]  # element axis, points from node 0 to node 1 (towards the root for half models)
    side = slice(None) if sym else slice(root, None)
    d = dist[side]
    L = d.max()
    P = 10 ** rng.uniform(2, 4)

    def load(vec6):
        f = np.zeros((ny, 6))
        f[tip] = vec6
        return solve_oas(p, props, f)

    # transverse tip forces along e2 (bending stiffness E*Iz) and e3 (E*Iy)
    for (ev, I, nm) in ((R[1], Iz, "e2"), (R[2], Iy, "e3")):
        u = load(np.concatenate([P * ev, np.zeros(3)]))
        w = P * d**2 * (3 * L - d) / (6 * E * I)
        o.close("closed/tip_force", u[side, :3] @ ev, w, rtol=1e-8, scale=w.max(), what="deflection under tip force along " + nm)
        o.close("closed/tip_force", u[side, :3] @ ax, 0.0, rtol=0, atol=1e-8 * w.max(), what="axial displacement under transverse force")
    # tip bending moments about e2 (curvature in the e1-e3 plane, E*Iy) and e3 (E*Iz)
    for (ev, I, nm) in ((R[1], Iy, "e2"), (R[2], Iz, "e3")):
        u = load(np.concatenate([np.zeros(3), P * ev]))
        th = P * d / (E * I)
        o.close("closed/tip_moment", u[side, 3:] @ ev, th, rtol=1e-8, scale=th.max(), what="rotation under tip moment about " + nm)
        wmag = P * d**2 / (2 * E * I)
        o.close("closed/tip_moment", np.linalg.norm(u[side, :3], axis=1), wmag, rtol=1e-8, scale=wmag.max(), what="deflection under tip moment about " + nm)
    # torque and axial force
    u = load(np.concatenate([np.zeros(3), P * ax]))
    o.close("closed/torque", u[side, 3:] @ ax, P * d / (G * J), rtol=1e-8, scale=P * L / (G * J))
    o.close("closed/torque", u[side, :3], 0.0, rtol=0, atol=1e-8 * P * L / (G * J) * L)
    u = load(np.concatenate([P * ax, np.zeros(3)]))
    o.close("closed/axial", u[side, :3] @ ax, P * d / (E * A), rtol=1e-8, scale=P * L / (E * A))
    if not sym:
        # the other half carries no load and must stay undeformed
        o.close("closed/unloaded_half", u[:root], 0.0, rtol=0, atol=1e-9 * P * L / (E * A))
    o.nontrivial = True


def run_alone(c, o):
    prob = zoo.build_struct(dict(surface=c["surface"], load_seed=c["load_seed"]))
    surf = prob._oas_surfaces[0]
    ny = surf["mesh"].shape[1]
    rng = np.random.default_rng(c["load_seed"])
    loads = rand_loads(rng, ny)
    prob.set_val("loads", loads)
    zoo.run(prob)
    nodes = zoo.get(prob, "nodes")
    sym = surf["symmetry"]
    root = ny - 1 if sym else (ny - 1) // 2
    props = {q: zoo.get(prob, q) for q in ("A", "Iy", "Iz", "J")}
    u = zoo.get(prob, "disp")
    uref, K = refframe.solve(nodes, surf["E"], surf["G"], props["A"], props["Iy"], props["Iz"], props["J"], loads, root)
    o.tags = [surf["fem_model_type"], "sym" if sym else "full"]
    scaled_close(o, "alone/disp_vs_reference", u, uref, 1e-7)
    o.close("alone/root_clamped", u[root], 0.0, rtol=0, atol=1e-9 * np.abs(u).max())
    if surf["fem_model_type"] == "tube":
        fo = surf["fem_origin"]
        mesh = zoo.get(prob, "mesh")
        o.close("alone/nodes_on_spar_line", nodes, (1 - fo) * mesh[0] + fo * mesh[-1], rtol=1e-12)
    o.nontrivial = bool(np.abs(u).max() > 0)


def run_pair(c, o):
    """two independent structural problems with the same number of nodes - one half-span, one full-span - are both set up before
    either is solved; each must still satisfy its own clamped-root equilibrium"""
    rng = np.random.default_rng(c["seed"])
    ny = c["ny"]
    E, G = 7e10, 2.7e10
    specs = []
    for half in ("left", "full"):
        nodes = node_line(rng, ny, half)
        r = 10 ** rng.uniform(-1.3, -0.7, ny - 1)
        props = dict(A=np.pi * r**2 * 0.3, Iy=r**4 * 0.5, Iz=r**4 * 0.3, J=r**4 * 0.8)
        specs.append((half, nodes, props, rand_loads(rng, ny)))
    order = specs if c["order"] == 0 else specs[::-1]
    probs = [beam_problem(nodes, half != "full", E, G) for (half, nodes, props, f) in order]  # all set up first
    for (half, nodes, props, f), p in zip(order, probs):  # ... then solved in the same order
        sym = half != "full"
        root = ny - 1 if sym else (ny - 1) // 2
        u = solve_oas(p, props, f)
        uref, K = refframe.solve(nodes, E, G, props["A"], props["Iy"], props["Iz"], props["J"], f, root)
        tags = ["pair", half, "set_up_%s" % ("first" if (half, nodes, props, f) is order[0] else "second")]
        scaled_close(o, "pair/disp_vs_reference", u, uref, 1e-6, tags=tags, what="%s beam of a pair set up together" % half)
        o.close("pair/root_clamped", u[root], 0.0, rtol=0, atol=1e-9 * np.abs(u).max(), tags=tags)
    o.nontrivial = True


def run_case(c):
    o = Obs()
    {"beam": run_beam, "closed": run_closed, "alone": run_alone, "pair": run_pair}[c["kind"]](c, o)
    return o
