"""C02 - coupled total derivatives are correct and identical in forward and reverse mode, whatever the linear solver."""
import warnings

import numpy as np

from ..obs import Obs
from .. import meshes as M
from .. import zoo

LEVEL = "exploration"
RULE = ("cases = seeded random models from the public groups (aero point incl. compressible / ground effect / 2 surfaces; "
        "structure-only tube and wingbox with point masses; aerostructural tube and wingbox points with weight relief, fuel, "
        "point masses + thrust, wave and viscous drag; 2-point multipoint), small meshes, each visited at 2 successive design "
        "points on the SAME problems.  At every point: total derivatives of every function of interest w.r.t. every design "
        "variable / flight condition from a forward-mode and a reverse-mode problem, compared with each other, with Richardson "
        "central differences of the converged analysis (directional for array variables), and between linear solvers (Direct, "
        "LinearBlockGS, Krylov with preconditioner) on the coupled group.  Non-trivial = non-zero gradient rows compared in both modes")
ASSUMPTIONS = ["Richardson central differences of the converged analysis (coupled solver residual 1e-11) with their error bar are the ground truth",
               "a linear solver that reports non-convergence makes only its own comparison undecided"]
REQUIRED_FAMILIES = ["fwd_rev/aero", "fwd_rev/struct", "fwd_rev/as", "fd/aero", "fd/struct", "fd/as", "solver/lbgs_vs_direct", "solver/krylov_vs_direct",
                     "fwd_rev/mphys", "fd/mphys"]
LEVEL_TEXT = ("forward- and reverse-mode totals of real models are computed at successive design points of live problems and compared "
              "with each other, with extrapolated finite differences of the converged analysis and across the supported linear solvers")
TECHNIQUE = "runtime monitoring: differential oracle (fwd vs rev vs Richardson FD of run_model vs alternative linear solvers) on live problems"

CASE_TIMEOUT = {"quick": 1200, "thorough": 3000}
BATCH_TIMEOUT = {"quick": 1500, "thorough": 5000}


def gen(c):
    rng = np.random.default_rng(c["seed"])
    model = c["model"]
    symc = bool(rng.integers(2))
    half = "left" if symc else "full"
    ny = 3 if model != "struct" else int(rng.integers(3, 6))
    if half == "full":
        ny = ny | 1
    spec = M.random_spec(rng, half=half, nx=2, ny=ny)
    spec.update(root_chord=float(np.round(max(spec["root_chord"], spec["span"] / 9.0), 3)), taper=max(spec["taper"], 0.5), camber=0.0)
    s = dict(name="wing", symmetry=symc, mesh=spec, with_viscous=True, with_wave=bool(rng.integers(2)), twist_cp=[1.0, 2.0], t_over_c_cp=[0.12, 0.1],
             chord_cp=[1.0, 0.9], sweep=float(np.round(rng.uniform(0, 20), 1)))
    # laminar fraction at the ends of its range (fully turbulent / fully laminar branches of the viscous-drag derivatives) and inside it
    s["k_lam"] = float(np.random.default_rng(c["seed"] + 11).choice([0.0, 0.05, 1.0, 0.4]))
    pts = []
    if model == "aero":
        mode = str(rng.choice(["plain", "compressible", "ground", "two"]))
        if mode == "ground":
            symc = True
            spec["half"] = "left"
            s["symmetry"] = True
            s["groundplane"] = True
        case = dict(surfaces=[s], flow=dict(alpha=3.0, beta=0.0, v=200.0, rho=0.5, Mach_number=0.6, re=1e6, cg=[0.2, 0.0, 0.1]), compressible=(mode == "compressible"))
        if mode == "ground":
            case["flow"]["height_agl"] = 12.0
        if mode == "two":
            case["surfaces"].append(dict(name="tail", symmetry=s["symmetry"], mesh=dict(M.random_spec(rng, half=spec["half"], nx=2, ny=3), offset=[6.0, 0.0, 0.6]), with_viscous=True,
                                         twist_cp=[0.5]))
        for k in range(2):
            # first above, then below the wave-drag onset on the same problem
            p = {"alpha": float(np.round(rng.uniform(1, 8), 2)), "Mach_number": float(np.round(rng.uniform(0.86, 0.93), 3)) if k == 0 else float(np.round(rng.uniform(0.45, 0.6), 3)), "v": float(rng.uniform(100, 250)),
                 "rho": float(rng.uniform(0.3, 1.0)), "wing.twist_cp": [float(x) for x in np.round(rng.uniform(-3, 3, 2), 2)], "wing.chord_cp": [float(x) for x in np.round(rng.uniform(0.8, 1.2, 2), 3)],
                 "wing.sweep": float(np.round(rng.uniform(0, 25), 2)), "wing.t_over_c_cp": [float(x) for x in np.round(rng.uniform(0.08, 0.14, 2), 3)]}
            if mode == "ground":
                p["height_agl"] = float(np.round(rng.uniform(6, 30), 2))
            if not s["symmetry"]:
                p["beta"] = float(np.round(rng.uniform(-9, 9), 2))
            pts.append(p)
        of = ["aero.CL", "aero.CD", "aero.CM", "aero.wing_perf.CDv", "aero.wing_perf.CDw"]
        return "aero", case, pts, of
    fem = "tube" if rng.integers(2) else "wingbox"
    s["taper"] = 0.8
    s.update(fem_model_type=fem, struct_weight_relief=bool(rng.integers(2)), distributed_fuel_weight=bool(fem == "wingbox" and rng.integers(2)),
             exact_failure_constraint=False)
    if fem == "tube":
        s["thickness_cp"] = [0.02, 0.03]
        tk = ["wing.thickness_cp"]
        tv = lambda: {"wing.thickness_cp": [float(x) for x in np.round(rng.uniform(0.015, 0.04, 2), 4)]}  # noqa: E731
    else:
        s["spar_thickness_cp"] = [0.005, 0.008]
        s["skin_thickness_cp"] = [0.008, 0.015]
        tv = lambda: {"wing.spar_thickness_cp": [float(x) for x in np.round(rng.uniform(0.004, 0.01, 2), 4)],  # noqa: E731
                      "wing.skin_thickness_cp": [float(x) for x in np.round(rng.uniform(0.006, 0.02, 2), 4)]}
    npm = int(rng.choice([0, 1, 2]))
    extra = {}
    if npm:
        s["n_point_masses"] = npm
        b2 = spec["span"] / 2
        extra = dict(point_masses=[float(x) for x in 10 ** rng.uniform(1.5, 3, npm)],
                     point_mass_locations=[[float(rng.uniform(-1, 2)), float(-rng.uniform(0.15, 0.85) * b2), float(rng.uniform(-0.5, 0.5))] for _ in range(npm)],
                     engine_thrusts=[float(x) for x in 10 ** rng.uniform(2, 4, npm)])
    if model == "struct":
        s["distributed_fuel_weight"] = False
        case = dict(surface=s, load_seed=int(rng.integers(1 << 30)), **extra)
        for k in range(2):
            p = {k_.replace("wing.", ""): v for k_, v in tv().items()}
            p["load_factor"] = float(rng.choice([1.0, 2.5]))
            if npm:
                p["point_mass_locations"] = [[q[0] + float(rng.uniform(-0.2, 0.2)), q[1] * float(rng.uniform(0.8, 1.1)), q[2]] for q in extra["point_mass_locations"]]
            pts.append(p)
        of = ["failure", "structural_mass", "disp", "vonmises"]
        return "struct", case, pts, of
    npts = 2 if model == "multipoint" else 1
    flows = [dict(alpha=3.0, v=150.0, rho=0.5, Mach_number=0.7, load_factor=1.0), dict(alpha=5.0, v=120.0, rho=0.7, Mach_number=0.6, load_factor=2.5)][:npts]
    case = dict(surfaces=[s], flows=flows, compressible=bool(rng.integers(2)), fuel_vol_delta=(fem == "wingbox"), **extra)
    if rng.random() < 0.3:
        case["S_ref_total"] = 30.0
    for k in range(2):
        p = {"alpha_0": float(np.round(rng.uniform(1, 6), 2)), "Mach_number_0": float(np.round(rng.uniform(0.84, 0.9), 3)) if k == 0 else float(np.round(rng.uniform(0.5, 0.62), 3)),
             "v_0": float(rng.uniform(100, 170)),
             "wing.twist_cp": [float(x) for x in np.round(rng.uniform(-2, 2, 2), 2)], "wing.geometry.t_over_c_cp": [float(x) for x in np.round(rng.uniform(0.09, 0.14, 2), 3)],
             "load_factor_0": float(rng.choice([1.0, 2.5])), "W0": float(rng.uniform(500, 5e3)), "fuel_mass": float(rng.uniform(500, 3e3)),
             "rho_0": float(rng.uniform(0.3, 0.8)), "wing.sweep": float(np.round(rng.uniform(0, 20), 2)), "wing.taper": float(np.round(rng.uniform(0.6, 1.0), 3)),
             "wing.geometry.chord_cp": [float(x) for x in np.round(rng.uniform(0.85, 1.15, 2), 3)]}
        if case.get("S_ref_total") is not None:
            p["S_ref_total"] = float(rng.uniform(10, 60))
        p.update(tv())
        if npts == 2:
            p["alpha_1"] = float(np.round(rng.uniform(0, 6), 2))
        if not s["symmetry"]:
            p["beta"] = float(np.round(rng.uniform(-8, 8), 2))
        if npm:
            p["point_mass_locations"] = [[q[0] + float(rng.uniform(-0.2, 0.2)), q[1] * float(rng.uniform(0.8, 1.1)), q[2]] for q in extra["point_mass_locations"]]
            p["point_masses"] = [float(x) for x in 10 ** rng.uniform(1.5, 3, npm)]
        pts.append(p)
    of = ["AS_point_0.CL", "AS_point_0.CD", "AS_point_0.CM", "AS_point_0.fuelburn", "AS_point_0.wing_perf.failure", "AS_point_0.L_equals_W", "wing.structural_mass"]
    if fem == "wingbox":
        of.append("wing_fuel_vol_delta.fuel_vol_delta")
        of.append("wing.struct_setup.fuel_vols")
    if npts == 2:
        of += ["AS_point_1.CL", "AS_point_1.fuelburn", "AS_point_1.wing_perf.failure"]
    return "as", case, pts, of


def cases(tier, seed):
    rng = np.random.default_rng(2000 + seed)
    out = []
    n = 18 if tier == "quick" else 240
    for k in range(n):
        model = ["aero", "as", "struct", "as", "struct", "multipoint"][k % 6]
        out.append(dict(kind="totals", model=model, seed=int(rng.integers(1 << 30)), solvers=bool(model in ("as", "multipoint") and k % 2 == 1),
                        _cost={"aero": 5, "as": 20, "struct": 6, "multipoint": 40}[model]))
    for k in range(4 if tier == "quick" else 48):
        out.append(dict(kind="mphys", seed=int(rng.integers(1 << 30)), nsurf=1 + k % 3, compressible=bool(k % 2), _cost=6))
    return out


def build(kind, case, mode, solver=None):
    c2 = dict(case)
    if solver:
        c2["solver"] = solver
    if kind == "aero":
        return zoo.build_aero(c2, geom=True, mode=mode)
    if kind == "struct":
        return zoo.build_struct(c2, mode=mode)
    return zoo.build_as(c2, mode=mode)


def set_point(prob, pt):
    for k, v in pt.items():
        prob.set_val(k, np.array(v, float))


def totals(prob, of, wrt):
    with warnings.catch_warnings():
        warnings.simplefilter("ignore")
        J = prob.compute_totals(of=of, wrt=wrt)
    return {(o_, w_): np.atleast_2d(np.array(v, float)) for (o_, w_), v in J.items()}


def values(prob, of):
    return np.concatenate([np.ravel(prob.get_val(o_)) for o_ in of])


def fd_directional(prob, of, pt, wrt, rng, known_fd=False):
    """Richardson central differences of the converged analysis along coordinate directions (small variables) or random
    directions (arrays): list of (wrt, direction, estimate, error bar)"""
    out = []
    sizes = [np.ravel(prob.get_val(o_)).size for o_ in of]
    v0 = values(prob, of)  # at the design point itself: one-sided quotients expose kinks that central differences average away
    for w in wrt:
        x0 = np.array(pt[w], float)
        flat = x0.ravel()
        dirs = []
        if flat.size <= 2:
            for i in range(flat.size):
                d = np.zeros(flat.size)
                d[i] = 1.0
                dirs.append(d)
        else:
            for _ in range(2):
                d = rng.normal(size=flat.size)
                dirs.append(d / np.abs(d).max())
        sc = max(np.abs(flat).max(), 1e-3)
        h0 = 2e-3 * sc
        for d in dirs:
            f = []
            side = []
            for lev in range(3):
                h = h0 / 2**lev
                vals = []
                for sgn in (1, -1):
                    prob.set_val(w, (flat + sgn * h * d).reshape(x0.shape))
                    zoo.run(prob)
                    vals.append(values(prob, of))
                f.append((vals[0] - vals[1]) / (2 * h))
                side.append(np.abs((vals[0] - v0) - (v0 - vals[1])) / h)
            R1 = (4 * f[1] - f[0]) / 3
            R2 = (4 * f[2] - f[1]) / 3
            est, err = (16 * R2 - R1) / 15, np.abs(R2 - R1)
            # smooth: forward and backward quotients differ by h f'' (falls by 4 from h to h/4); at a kink of the analysed function (e.g.
            # the wingbox twist angle |arccos| at an untwisted section) the mismatch stays: no derivative exists, the entry does not decide
            kink = (side[2] > 0.5 * side[0]) & (side[2] > 1e-4 * np.maximum(np.abs(est), 1e-300))
            err = np.where(kink, np.inf, err)
            out.append((w, d, est, err, np.abs(f[2] - f[1])))
        prob.set_val(w, x0)
    zoo.run(prob)
    return out, sizes


def jdot(J, of, w, d):
    return np.concatenate([J[(o_, w)].reshape(J[(o_, w)].shape[0], -1) @ d for o_ in of])


def compare_J(o, fam, Ja, Jb, of, wrt, rtol, tags, what, row_floor=1e-10):
    for o_ in of:
        row = max(max(np.abs(Ja[(o_, w)]).max(initial=0.0), np.abs(Jb[(o_, w)]).max(initial=0.0)) for w in wrt)
        for w in wrt:
            a, b = Ja[(o_, w)], Jb[(o_, w)]
            sc = max(np.abs(a).max(initial=0.0), np.abs(b).max(initial=0.0))
            if sc == 0:
                continue
            o.close(fam, a, b, rtol=rtol, scale=sc, atol=row_floor * row, tags=tags + ["of=" + o_.split(".")[-1], "wrt=" + w.split(".")[-1]], what="%s d(%s)/d(%s)" % (what, o_, w))


def run_totals(c, o):
    rng = np.random.default_rng(c["seed"] + 3)
    kind, case, pts, of = gen(c)
    fam_kind = {"aero": "aero", "struct": "struct", "as": "as"}[kind]
    tags = [c["model"]]
    wingbox = any(s.get("fem_model_type") == "wingbox" for s in (case.get("surfaces") or [case.get("surface")]))
    pf = build(kind, case, "fwd")
    pr = build(kind, case, "rev")
    alt = {}
    if c.get("solvers"):
        alt["lbgs"] = build(kind, case, "rev" if c["seed"] % 2 else "fwd", solver=dict(lin="lbgs", lin_rtol=1e-12))
        alt["krylov"] = build(kind, case, "fwd" if c["seed"] % 2 else "rev", solver=dict(lin="krylov", precon="direct"))
    nz = 0
    for ip, pt in enumerate(pts):
        wrt = list(pt.keys())
        for p in [pf, pr] + list(alt.values()):
            set_point(p, pt)
            zoo.run(p)
        Jf = totals(pf, of, wrt)
        Jr = totals(pr, of, wrt)
        ptag = tags + ["point=%d" % ip]
        compare_J(o, "fwd_rev/" + fam_kind, Jf, Jr, of, wrt, 1e-8 if kind == "as" else 1e-9, ptag, "fwd vs rev")
        nz += sum(1 for k, v in Jf.items() if np.abs(v).max(initial=0.0) > 0)
        # alternative linear solvers on the coupled group
        for name, p in alt.items():
            from openmdao.api import AnalysisError

            try:
                Ja = totals(p, of, wrt)
            except AnalysisError as e:
                o.info.setdefault("linear_solver_not_converged", []).append("%s: %s" % (name, str(e)[:80]))
                o._fam("solver/%s_vs_direct" % name, 0.0)
                continue
            # an iterative solve is only as accurate as its residual tolerance times the conditioning of the coupled system
            compare_J(o, "solver/%s_vs_direct" % name, Ja, Jf, of, wrt, 1e-5 if name == "lbgs" else 1e-8, ptag + ["solver=" + name], "%s vs direct" % name, row_floor=1e-6)
            o.count("solver_%s_converged" % name)
        # finite differences of the converged analysis (forward-mode problem is re-used as the function evaluator)
        fd, sizes = fd_directional(pf, of, pt, wrt, rng)
        for (w, d, est, err, spread) in fd:
            for J, mode in ((Jf, "fwd"), (Jr, "rev")):
                a = jdot(J, of, w, d)
                r0 = 0
                for o_, sz in zip(of, sizes):
                    sl = slice(r0, r0 + sz)
                    r0 += sz
                    S = max(np.abs(a[sl]).max(initial=0.0), np.abs(est[sl]).max(initial=0.0))
                    row = max(np.abs(J[(o_, w2)]).max(initial=0.0) * max(np.abs(np.array(pt[w2], float)).max(), 1e-3) for w2 in wrt)
                    xs = max(np.abs(np.array(pt[w], float)).max(), 1e-3)
                    if S == 0 and row == 0:
                        continue
                    rt = 5e-4 if wingbox else 1e-5  # wingbox chains contain forward-difference (step 1e-6, one-sided) partials declared by the repository: truncation error up to a few 1e-4 on meshes with short elements (measured per component in C01)
                    tol = rt * S + 20 * err[sl] + (1e-6 if wingbox else 1e-7) * row / xs  # (small totals that are differences of large terms inherit the absolute error of those terms)
                    ok_fd = err[sl] <= 1e-2 * max(S, 1e-300)
                    diff = np.abs(a[sl] - est[sl])
                    if not ok_fd.all():
                        o.count("fd_entries_not_converged", int((~ok_fd).sum()))
                    m = float((diff[ok_fd] / tol[ok_fd]).max()) if ok_fd.any() else 0.0
                    o._fam("fd/" + fam_kind, m)
                    if m > 1.0:
                        i = int(np.argmax(np.where(ok_fd, diff / tol, 0)))
                        extra_d = {}
                        if o_.endswith("fuel_vol_delta") and "wing.struct_setup.fuel_vols" in of:
                            # sensitivity of the enclosed fuel volumes along this direction (bounds the effect of the known finding)
                            extra_d["vols_sens"] = float(np.abs(jdot(J, ["wing.struct_setup.fuel_vols"], w, d)).sum())
                        o.violate("fd/" + fam_kind, "%s total d(%s)/d(%s) along %s: reported %.8g, finite differences %.8g +- %.1e" % (
                            mode, o_, w, np.round(d, 3).tolist()[:6], a[sl][i], est[sl][i], err[sl][i]), err=float(diff[i]), tol=float(tol[i]),
                            tags=ptag + ["mode=" + mode, "of=" + o_.split(".")[-1], "wrt=" + w.split(".")[-1]], **extra_d)
    o.info["nonzero_blocks"] = nz
    o.nontrivial = nz > 0


def run_mphys(c, o):
    """matrix-free mesh demultiplexer -> VLM solver group -> force multiplexer + functions group: totals in both modes vs FD"""
    from mphys.core import MPhysVariables as V
    from .c19 import mphys_problem, rand_surface

    rng = np.random.default_rng(c["seed"])
    surfs = [zoo.aero_surface(rand_surface(rng, s_, "full")) for s_ in range(c["nsurf"])]
    for s_ in surfs:
        s_["with_viscous"] = True
    flow = dict(zoo.FLOW_DEFAULT, alpha=float(np.round(rng.uniform(0, 8), 2)), beta=float(np.round(rng.uniform(-5, 5), 2)), v=float(rng.uniform(60, 240)),
                rho=float(rng.uniform(0.3, 1.2)), Mach_number=float(np.round(rng.uniform(0.3, 0.8), 3)), cg=[0.3, 0.0, 0.1])
    X, Ld = V.Aerodynamics.Surface.COORDINATES, V.Aerodynamics.Surface.LOADS
    FC = V.Aerodynamics.FlowConditions
    of = [Ld, "funcs.CL", "funcs.CD", "funcs.CM"]
    wrt = [X, FC.ANGLE_OF_ATTACK, FC.MACH_NUMBER, "v"]
    tags = ["mphys", "nsurf=%d" % c["nsurf"], "compressible" if c["compressible"] else "incompressible"]
    J = {}
    probs = {}
    for mode in ("fwd", "rev"):
        p = mphys_problem(surfs, flow, c["compressible"], mode=mode)
        zoo.run(p)
        J[mode] = totals(p, of, wrt)
        probs[mode] = p
    compare_J(o, "fwd_rev/mphys", J["fwd"], J["rev"], of, wrt, 1e-9, tags, "fwd vs rev (MPhys wrappers)")
    # directional finite differences of the wrapped analysis
    p = probs["fwd"]
    x0 = np.array(p.get_val(X)).copy()
    pt = {X: x0.tolist(), FC.ANGLE_OF_ATTACK: flow["alpha"], "v": flow["v"]}
    if c["compressible"]:
        pt[FC.MACH_NUMBER] = flow["Mach_number"]
    fd, sizes = fd_directional(p, of, pt, list(pt), rng)
    for (w, d, est, err, spread) in fd:
        for mode in ("fwd", "rev"):
            a = jdot(J[mode], of, w, d)
            r0 = 0
            for o_, sz in zip(of, sizes):
                sl = slice(r0, r0 + sz)
                r0 += sz
                S = max(np.abs(a[sl]).max(initial=0.0), np.abs(est[sl]).max(initial=0.0))
                if S == 0:
                    continue
                rowS = max(np.abs(jdot(J[mode], of, w2, np.ones(np.array(pt[w2]).size) if np.array(pt[w2]).size > 1 else np.ones(1))[sl]).max(initial=0.0) for w2 in pt)
                tol = 1e-5 * S + 20 * err[sl] + 1e-7 * rowS
                ok_fd = err[sl] <= 1e-2 * S
                diff = np.abs(a[sl] - est[sl])
                m = float((diff[ok_fd] / tol[ok_fd]).max()) if ok_fd.any() else 0.0
                o._fam("fd/mphys", m)
                if m > 1.0:
                    i = int(np.argmax(np.where(ok_fd, diff / tol, 0)))
                    o.violate("fd/mphys", "%s total d(%s)/d(%s): reported %.8g, finite differences %.8g +- %.1e" % (mode, o_, w, a[sl][i], est[sl][i], err[sl][i]),
                              err=float(diff[i]), tol=float(tol[i]), tags=tags + ["mode=" + mode, "of=" + o_.split(".")[-1], "wrt=" + w])
    o.nontrivial = True


def run_case(c):
    o = Obs()
    if c["kind"] == "mphys":
        run_mphys(c, o)
    else:
        run_totals(c, o)
    return o
