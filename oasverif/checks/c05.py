"""C05 - the VLM solution satisfies flow tangency and matches an independent Biot-Savart reference."""
import numpy as np

from ..obs import Obs
from .. import meshes as M
from .. import zoo, vlmcompare

LEVEL = "exploration"
RULE = ("cases = seeded random sets of 1-3 lifting surfaces (random swept/tapered/twisted/cambered/dihedral meshes fed "
        "directly to AeroPoint, arbitrary placement, nx 2..5, ny 2..9 both parities, full-span and symmetric-half "
        "surfaces) x random alpha, beta, rotation rate, v, rho.  Non-trivial = circulations are non-zero and every "
        "comparison family was evaluated; distinct = distinct case digests")
ASSUMPTIONS = ["reference VLM (oasverif/refs/refvlm.py) is correct; it is validated against closed forms in the self test",
               "numpy.linalg.solve"]
REQUIRED_FAMILIES = ["vlm/aic", "vlm/circulations", "vlm/sec_forces", "vlm/tangency", "vlm/kutta_joukowski"]
LEVEL_TEXT = ("the real AeroPoint group is executed on generated multi-surface configurations and its influence matrix, "
              "right-hand side, circulations, local velocities and panel forces are compared element-wise with an "
              "independently written vortex-ring solver; flow tangency is evaluated with the reference induction")
TECHNIQUE = "runtime monitoring: reference-model oracle (independent Biot-Savart VLM) on recorded aero states"


def rand_flow(rng, sym_only):
    f = dict(alpha=float(np.round(rng.uniform(-15, 15), 3)), v=float(10 ** rng.uniform(0, 2.7)),
             rho=float(10 ** rng.uniform(-2, 0.3)), Mach_number=0.3, re=1e6)
    f["beta"] = 0.0 if sym_only else float(np.round(rng.uniform(-15, 15), 3))
    if rng.random() < 0.15:
        f["alpha"] = 0.0
    if rng.random() < 0.15:
        f["beta"] = 0.0
    return f


def cases(tier, seed):
    rng = np.random.default_rng(5000 + seed)
    n = 48 if tier == "quick" else 1440
    out = []
    for k in range(n):
        nsurf = int(rng.choice([1, 1, 2, 2, 3]))
        any_sym = (k % 4 == 3)
        surfs = []
        for s in range(nsurf):
            sym = bool(any_sym and (s == 0 or rng.random() < 0.5))
            half = str(rng.choice(["left", "right"])) if sym else "full"
            spec = M.random_spec(rng, half=half, nx=int(rng.integers(2, 6)), ny=int(rng.integers(2, 10)), odd_full=False)
            if not sym and rng.random() < 0.5:
                spec["mirror_symmetric"] = False
            spec["offset"] = [float(np.round(s * rng.uniform(3, 8), 3)), 0.0 if sym else float(np.round(rng.uniform(-2, 2), 3)),
                              float(np.round(s * rng.uniform(0.3, 2.0) * rng.choice([-1, 1]), 3))]
            surfs.append(dict(name="s%d" % s, symmetry=sym, mesh=spec))
        if k % 6 == 5:
            surfs[-1]["mesh_dtype"] = "float32"  # the (last) surface's mesh array is single precision
        flow = rand_flow(rng, any_sym)
        rot = bool(rng.random() < 0.4) and not any_sym
        if rot:
            flow["omega"] = [float(x) for x in np.round(rng.uniform(-0.5, 0.5, 3), 4)]
            flow["cg"] = [float(x) for x in np.round(rng.uniform(-2, 2, 3), 3)]
        cost = sum((s["mesh"]["nx"] - 1) * (s["mesh"]["ny"] - 1) for s in surfs) ** 2 / 400.0 + 1
        out.append(dict(kind="sym" if any_sym else ("rot" if rot else "free"), surfaces=surfs, flow=flow, rotational=rot, _cost=cost))
    # histories: one live problem taken through several flow conditions (body rate on, exactly zero, on again; angles changed one at a
    # time); the state must match the reference at every step
    nseq = 6 if tier == "quick" else 120
    for k in range(nseq):
        nsurf = int(rng.choice([1, 2]))
        surfs = []
        for s in range(nsurf):
            spec = M.random_spec(rng, half="full", nx=int(rng.integers(2, 4)), ny=int(rng.integers(3, 7)), odd_full=False)
            spec["offset"] = [float(np.round(s * rng.uniform(3, 8), 3)), float(np.round(rng.uniform(-1, 1), 3)), float(np.round(s * rng.uniform(0.3, 1.5), 3))]
            surfs.append(dict(name="s%d" % s, symmetry=False, mesh=spec))
        base = rand_flow(rng, False)
        base["cg"] = [float(x) for x in np.round(rng.uniform(-2, 2, 3), 3)]
        steps = []
        for j in range(5):
            f = dict(base)
            if j in (0, 2, 4):
                f["omega"] = [float(x) for x in np.round(rng.uniform(-0.5, 0.5, 3), 4)]
            else:
                f["omega"] = [0.0, 0.0, 0.0]
            if j == 2:
                f["alpha"] = float(np.round(rng.uniform(-15, 15), 3))
            if j == 3:
                f["beta"] = float(np.round(rng.uniform(-15, 15), 3))
            if j == 4:
                f["cg"] = [float(x) for x in np.round(rng.uniform(-2, 2, 3), 3)]
            base = f
            steps.append(f)
        out.append(dict(kind="seq", surfaces=surfs, steps=steps, rotational=True, _cost=6))
    # corner list: smallest meshes, single panel, flat plate at alpha=beta=0 (zero circulation must come out)
    out.append(dict(kind="corner", surfaces=[dict(name="s0", symmetry=False, mesh=dict(nx=2, ny=2, half="full", span=4.0))],
                    flow=dict(alpha=5.0, beta=3.0, v=10.0, rho=1.0), rotational=False))
    out.append(dict(kind="corner", surfaces=[dict(name="s0", symmetry=False, mesh=dict(nx=2, ny=3, half="full", span=4.0, camber=0.03))],
                    flow=dict(alpha=0.0, beta=0.0, v=10.0, rho=1.0), rotational=False))
    out.append(dict(kind="corner", surfaces=[dict(name="s0", symmetry=True, mesh=dict(nx=2, ny=2, half="right", span=4.0, sweep_deg=20))],
                    flow=dict(alpha=-7.0, beta=0.0, v=10.0, rho=1.0), rotational=False))
    return out


def run_seq(c, o):
    prob = zoo.build_aero(dict(surfaces=c["surfaces"], flow=c["steps"][0], rotational=True), geom=False)
    surfaces = prob._oas_surfaces
    nz = False
    for j, f in enumerate(c["steps"]):
        for k_ in ("alpha", "beta", "v", "rho", "omega", "cg"):
            prob.set_val(k_, np.array(f[k_], float))
        zoo.run(prob)
        st = vlmcompare.oas_states(prob, "aero.aero_states", surfaces)
        flow = dict(zoo.FLOW_DEFAULT)
        flow.update(f)
        ref = vlmcompare.reference(st, surfaces, flow, rotational=True)
        nz = bool(vlmcompare.compare(o, st, ref, "vlm", rtol=1e-9, tags=["seq", "step=%d" % j, "omega_zero" if not any(f["omega"]) else "omega_on"])) or nz
        o.count("history_steps_compared")
    o.nontrivial = nz
    return o


def run_case(c):
    o = Obs()
    if c["kind"] == "seq":
        return run_seq(c, o)
    prob = zoo.build_aero(dict(surfaces=c["surfaces"], flow=c["flow"], rotational=c.get("rotational", False)), geom=False)
    zoo.run(prob)
    surfaces = prob._oas_surfaces
    st = vlmcompare.oas_states(prob, "aero.aero_states", surfaces)
    # the group must have received the meshes we fed
    for s, m in zip(surfaces, st["meshes"]):
        o.close("vlm/mesh_passthrough", m, s["mesh"], rtol=0, atol=0)
    flow = dict(zoo.FLOW_DEFAULT)
    flow.update(c["flow"])
    ref = vlmcompare.reference(st, surfaces, flow, rotational=c.get("rotational", False))
    tags = [c["kind"], "nsurf=%d" % len(surfaces)]
    nz = vlmcompare.compare(o, st, ref, "vlm", rtol=1e-9, tags=tags)
    o.nontrivial = bool(nz)
    o.info = dict(npanels=len(ref["panels"]), cond=float(np.linalg.cond(ref["A"])), CL=float(np.ravel(prob.get_val("aero.CL"))[0]))
    return o


# ---------------------------------------------------------------------------------------------- suite workload
# second workload source: the repository's own tests run under the monitor plugin (oasverif/plugin.py, oasverif/monitors.py);
# only the monitors that serve this property decide here
_cases_generated = cases
_run_case_generated = run_case


def cases(tier, seed):
    return _cases_generated(tier, seed) + [dict(kind="suite", tier=tier, _cost=200)]


def run_case(c):
    if c["kind"] != "suite":
        return _run_case_generated(c)
    from .. import suite

    o = Obs()
    suite.observe(o, "C05", c.get("tier", "quick"))
    return o
