"""C15 - stress recovery and failure aggregation are consistent and conservative."""
import warnings

import numpy as np

from ..obs import Obs
from .. import meshes as M
from .. import zoo
from .c10 import node_line

LEVEL = "exploration"
RULE = ("cases = (funcs) the real SpatialBeamFunctionals group (tube and wingbox, exact and KS failure, upper-skin strength "
        "factor 0.5..2) fed with random beam geometries, random displacement fields, rigid-body motions and scaled copies; "
        "(ks) FailureKS/FailureExact fed with stress fields of magnitude 0..1e12 Pa, N up to 400 entries, yield 1e6..1e9, "
        "aggregation parameter rho 1..1e4 passed as component option; (closed) straight cantilevers solved by the real "
        "SpatialBeamAlone FEM under pure axial force, tip moments and torque against closed-form stresses from the model's "
        "own section properties; (coupled) converged aerostructural points.  Non-trivial = non-zero stresses and all "
        "families of the kind evaluated")
ASSUMPTIONS = ["closed-form beam stress formulas (N/A, M h/I, M r/I, T r/J, Bredt T/(2 t A_enc))", "numpy"]
REQUIRED_FAMILIES = ["vm/nonnegative", "vm/rigid_motion_zero", "vm/linear_scaling", "ks/lower_bound", "ks/upper_bound", "ks/finite",
                     "exact/definition", "closed/tube_axial", "closed/tube_bending", "closed/tube_torsion", "closed/wingbox_axial",
                     "closed/wingbox_bending_top_bottom", "closed/wingbox_bending_front_rear", "closed/wingbox_torsion", "modes/pure_torsion", "modes/pure_axial", "modes/pure_bending", "modes/finite"]
LEVEL_TEXT = ("the real stress-recovery and failure components are executed on generated displacement fields, rigid motions, "
              "scaled fields, extreme stress magnitudes and aggregation parameters; invariants (non-negativity, rigid-motion "
              "nullity, homogeneity, KS bounds) and closed-form cantilever stresses are checked on every execution")
TECHNIQUE = "runtime monitoring: invariant oracles (bounds, homogeneity, rigid-motion nullity) + closed-form reference on real FEM solutions"


def cases(tier, seed):
    rng = np.random.default_rng(15000 + seed)
    out = []
    n = 60 if tier == "quick" else 1500
    for k in range(n):
        out.append(dict(kind="funcs", fem="tube" if k % 2 else "wingbox", ny=int(rng.integers(2, 14)), half="full" if k % 3 == 0 else "left",
                        seed=int(rng.integers(1 << 30)), exact=bool(k % 4 < 2), tssf=float(np.round(rng.choice([1.0, rng.uniform(0.5, 2.0)]), 3))))
    n = 60 if tier == "quick" else 1800
    for k in range(n):
        fem = "tube" if k % 2 else "wingbox"
        ncrit = 2 if fem == "tube" else 4
        ne = int(rng.choice([1, 2, 5, 20, 100, 400 // ncrit]))
        out.append(dict(kind="ks", fem=fem, ne=ne, seed=int(rng.integers(1 << 30)), rho=(float(np.round(10 ** rng.uniform(0, 3), 3)) if k % 5 else 100.0) if k % 6 != 3 else float(rng.choice([720.0, 1000.0, 3000.0, 1e4])),
                        logmag=float(rng.uniform(-3, 12)) if k % 7 else 12.0, logyield=float(rng.uniform(6, 9)),
                        pattern=str(rng.choice(["random", "equal", "one_peak", "zeros", "two_close"]))))
    n = 16 if tier == "quick" else 300
    for k in range(n):
        out.append(dict(kind="closed", fem="tube" if k % 2 else "wingbox", ny=int(rng.integers(2, 8)), nx=int(rng.integers(2, 4)),
                        span=float(np.round(rng.uniform(6, 30), 2)), chord=float(np.round(rng.uniform(0.8, 3.0), 2)),
                        tssf=float(np.round(rng.choice([1.0, rng.uniform(0.5, 2.0)]), 3)), seed=int(rng.integers(1 << 30)), _cost=4))
    n = 4 if tier == "quick" else 90
    for k in range(n):
        spec = zoo.sane_wing(M.random_spec(rng, half="left", nx=int(rng.integers(2, 4)), ny=int(rng.integers(3, 7))))
        out.append(dict(kind="coupled", surfaces=[dict(name="wing", symmetry=True, mesh=spec, fem_model_type="tube" if k % 2 else "wingbox",
                                                       exact_failure_constraint=bool(k % 3 == 0))],
                        flow=dict(alpha=float(np.round(rng.uniform(-2, 8), 2)), v=float(rng.uniform(50, 160)), rho=float(rng.uniform(0.3, 0.8))), _cost=6))
    # single deformation modes prescribed directly on straight spars of arbitrary direction (the relative end rotation is exactly
    # parallel / perpendicular to the element axis, the element stretches without rotating): each stress is one closed-form term
    n = 18 if tier == "quick" else 540
    for k in range(n):
        out.append(dict(kind="modes", fem="tube", ny=int(rng.choice([2, 3, 6, 11, 24])), seed=int(rng.integers(1 << 30)),
                        direction=["random", "y", "swept", "swept_dihedral"][k % 4]))
    return out


# ---------------------------------------------------------------------------------------------- real components
def funcs_problem(fem, nodes, sym, exact, tssf=1.0, yield_=3e8, E=7e10, G=3e10):
    import openmdao.api as om
    from openaerostruct.structures.spatial_beam_functionals import SpatialBeamFunctionals

    ny = len(nodes)
    mesh = np.zeros((2, ny, 3))
    mesh[0] = nodes
    mesh[1] = nodes + np.array([1.0, 0, 0])
    surf = dict(name="wing", symmetry=sym, mesh=mesh, fem_model_type=fem, E=E, G=G, exact_failure_constraint=exact,
                strength_factor_for_upper_skin=tssf)
    surf["yield"] = yield_
    p = om.Problem(reports=False)
    ivc = om.IndepVarComp()
    ivc.add_output("nodes", val=nodes, units="m")
    ivc.add_output("disp", val=np.zeros((ny, 6)), units="m")
    names = ["radius", "thickness"] if fem == "tube" else ["Qz", "J", "A_enc", "spar_thickness", "htop", "hbottom", "hfront", "hrear"]
    units = dict(radius="m", thickness="m", Qz="m**3", J="m**4", A_enc="m**2", spar_thickness="m", htop="m", hbottom="m", hfront="m", hrear="m")
    for q in names:
        ivc.add_output(q, val=np.ones(ny - 1), units=units[q])
    p.model.add_subsystem("ivc", ivc, promotes=["*"])
    p.model.add_subsystem("f", SpatialBeamFunctionals(surface=surf), promotes=["*"])
    with warnings.catch_warnings():
        warnings.simplefilter("ignore")
        p.setup()
    return p, surf


def run_funcs(c, o):
    rng = np.random.default_rng(c["seed"])
    ny, half, fem = c["ny"], c["half"], c["fem"]
    if half == "full":
        ny = max(3, ny | 1)
    sym = half != "full"
    nodes = node_line(rng, ny, half)
    yield_ = 10 ** rng.uniform(7, 9)
    p, surf = funcs_problem(fem, nodes, sym, c["exact"], c["tssf"], yield_)
    o.tags = [fem, "exact" if c["exact"] else "ks", "tssf=%g" % c["tssf"]]
    if fem == "tube":
        props = dict(radius=10 ** rng.uniform(-2, -0.5, ny - 1), thickness=10 ** rng.uniform(-3, -2, ny - 1))
    else:
        props = dict(Qz=10 ** rng.uniform(-4, -2, ny - 1), J=10 ** rng.uniform(-5, -3, ny - 1), A_enc=10 ** rng.uniform(-2, 0, ny - 1),
                     spar_thickness=10 ** rng.uniform(-3, -2, ny - 1), htop=rng.uniform(0.02, 0.3, ny - 1), hbottom=rng.uniform(0.02, 0.3, ny - 1),
                     hfront=rng.uniform(0.1, 1.0, ny - 1), hrear=rng.uniform(0.1, 1.0, ny - 1))
    for k, v in props.items():
        p.set_val(k, v)
    E = surf["E"]
    span = np.ptp(nodes[:, 1])

    def vm(disp):
        p.set_val("disp", disp)
        zoo.run(p)
        return np.array(p.get_val("vonmises")).copy(), np.array(p.get_val("failure")).copy()

    disp = np.hstack([rng.normal(0, 1e-2 * span, (ny, 3)), rng.normal(0, 2e-2, (ny, 3))])
    s1, f1 = vm(disp)
    o.true("vm/finite", bool(np.all(np.isfinite(s1))), "non-finite von Mises stress")
    o.le("vm/nonnegative", -s1, 0.0, slack=0.0, what="negative von Mises stress")
    ncrit = 2 if fem == "tube" else 4
    o.true("vm/shape", s1.shape == (ny - 1, ncrit), "vonmises shape %s" % (s1.shape,))
    if c["exact"]:
        o.close("exact/definition", f1, s1 / yield_ - 1.0, rtol=1e-12, atol=1e-12)
    else:
        fe = s1 / yield_ - 1.0
        o.le("ks/lower_bound", fe.max(), f1, slack=1e-12 * max(1.0, abs(fe.max())), what="KS below the largest element failure")
        o.le("ks/upper_bound", f1, fe.max() + np.log(fe.size) / 100.0, slack=1e-12 * max(1.0, abs(fe.max())), what="KS above max + ln N / rho (default rho=100)")
    # homogeneity of degree one
    a = float(rng.choice([-3.7, -1.0, 0.25, 10.0, 1e-4]))
    s2, _ = vm(a * disp)
    if a < 0 and fem == "tube":
        # the two tube values are the tension-side and compression-side combinations; reversing the load swaps them
        o.close("vm/linear_scaling", np.sort(s2, axis=1), abs(a) * np.sort(s1, axis=1), rtol=1e-9, scale=abs(a) * s1.max())
    else:
        o.close("vm/linear_scaling", s2, abs(a) * s1, rtol=1e-9, scale=abs(a) * s1.max())
    # rigid-body motion (linearised): u = t + theta x (r - r0), rotations = theta
    th = rng.normal(size=3) * 10 ** rng.uniform(-6, -2)
    t = rng.normal(size=3) * span
    r0 = rng.normal(size=3) * span
    rigid = np.hstack([t + np.cross(th, nodes - r0), np.tile(th, (ny, 1))])
    s3, _ = vm(rigid)
    Lmin = np.linalg.norm(np.diff(nodes, axis=0), axis=1).min()
    hmax = 1.0 if fem == "tube" else max(props["htop"].max(), props["hfront"].max())
    # tolerance: 1e-9 of the stress scale E*|theta| of a deformation of the same size, plus the round-off floor of
    # differencing displacements of size |u| over the shortest element
    floor = 1e3 * np.finfo(float).eps * E * np.abs(rigid).max() / Lmin * max(1.0, hmax / Lmin)
    o.close("vm/rigid_motion_zero", s3, 0.0, rtol=0, atol=1e-9 * E * np.linalg.norm(th) * max(1.0, span / Lmin) + floor, what="stress under rigid-body motion")
    # rigid motion superposed on a deformation does not change the stress
    s4, _ = vm(disp + rigid)
    o.close("vm/rigid_motion_superposed", s4, s1, rtol=1e-8, atol=1e-9 * E * np.linalg.norm(th) * max(1.0, span / Lmin) + floor)
    # zero displacement
    s0, _ = vm(np.zeros((ny, 6)))
    o.close("vm/zero_disp", s0, 0.0, rtol=0, atol=0.0)
    if fem == "wingbox" and c["tssf"] != 1.0:
        # the upper-skin strength factor divides exactly the two upper-skin combinations (columns 0 and 3)
        p1, _s = funcs_problem(fem, nodes, sym, True, 1.0, yield_)
        for k, v in props.items():
            p1.set_val(k, v)
        p1.set_val("disp", disp)
        zoo.run(p1)
        sref = np.array(p1.get_val("vonmises"))
        o.close("vm/upper_skin_factor", s1[:, [0, 3]] * c["tssf"], sref[:, [0, 3]], rtol=1e-10)
        o.close("vm/upper_skin_factor", s1[:, [1, 2]], sref[:, [1, 2]], rtol=1e-12)
    o.nontrivial = bool(s1.max() > 0)


def run_modes(c, o):
    rng = np.random.default_rng(c["seed"])
    ny = c["ny"]
    d = {"random": rng.normal(size=3), "y": np.array([0.0, 1.0, 0.0]), "swept": np.array([np.tan(np.deg2rad(rng.uniform(5, 45))), 1.0, 0.0]),
         "swept_dihedral": np.array([np.tan(np.deg2rad(rng.uniform(5, 45))), 1.0, np.tan(np.deg2rad(rng.uniform(2, 15)))])}[c["direction"]]
    if abs(d[1]) < 0.2 * np.linalg.norm(d):
        d[1] = np.sign(d[1] or 1.0) * np.linalg.norm(d)  # not aligned with x (the property's quantifier)
    d = d / np.linalg.norm(d)
    s_ = np.concatenate([[0.0], np.cumsum(rng.uniform(0.3, 2.0, ny - 1))])
    nodes = rng.normal(size=3) * 3 + np.outer(s_, d)
    L = np.diff(s_)
    E, G = 7e10, 3e10
    p, surf = funcs_problem("tube", nodes, False, True, 1.0, 3e8, E, G)
    r = 10 ** rng.uniform(-2, -0.5, ny - 1)
    p.set_val("radius", r)
    p.set_val("thickness", r * 0.1)
    o.tags = ["modes", c["direction"]]

    def vm(disp):
        p.set_val("disp", disp)
        zoo.run(p)
        return np.array(p.get_val("vonmises")).copy()

    nrm = np.cross(d, rng.normal(size=3))
    nrm /= np.linalg.norm(nrm)
    for scale in (1.0, 10 ** rng.uniform(-6, -1)):
        th = np.cumsum(rng.normal(size=ny)) * scale
        # twist about the spar axis
        s1 = vm(np.hstack([np.zeros((ny, 3)), np.outer(th, d)]))
        ref = np.sqrt(3.0) * G * r * np.abs(np.diff(th)) / L
        o.true("modes/finite", bool(np.all(np.isfinite(s1))), "non-finite von Mises stress under pure twist of a straight spar along %s" % np.round(d, 4).tolist(),
               n_nan=int(np.sum(~np.isfinite(s1))))
        o.close("modes/pure_torsion", s1, np.column_stack([ref, ref]), rtol=1e-9, scale=ref.max())
        # stretch along the axis
        s2 = vm(np.hstack([np.outer(th, d), np.zeros((ny, 3))]))
        ref = E * np.abs(np.diff(th)) / L
        o.true("modes/finite", bool(np.all(np.isfinite(s2))), "non-finite von Mises stress under pure stretch")
        o.close("modes/pure_axial", s2, np.column_stack([ref, ref]), rtol=1e-9, scale=ref.max())
        # relative end rotation perpendicular to the axis (curvature), no stretch
        s3 = vm(np.hstack([np.zeros((ny, 3)), np.outer(th, nrm)]))
        ref = E * r * np.abs(np.diff(th)) / L
        o.true("modes/finite", bool(np.all(np.isfinite(s3))), "non-finite von Mises stress under pure curvature")
        o.close("modes/pure_bending", s3, np.column_stack([ref, ref]), rtol=1e-9, scale=ref.max())
        # twist plus a rigid-body motion
        thr = rng.normal(size=3) * 1e-3
        rigid = np.hstack([np.cross(thr, nodes - nodes[0]), np.tile(thr, (ny, 1))])
        s4 = vm(np.hstack([np.zeros((ny, 3)), np.outer(th, d)]) + rigid)
        o.true("modes/finite", bool(np.all(np.isfinite(s4))), "non-finite von Mises stress under twist plus rigid-body motion", n_nan=int(np.sum(~np.isfinite(s4))))
    o.nontrivial = True


def run_ks(c, o):
    import openmdao.api as om
    from openaerostruct.structures.failure_ks import FailureKS
    from openaerostruct.structures.failure_exact import FailureExact

    rng = np.random.default_rng(c["seed"])
    ncrit = 2 if c["fem"] == "tube" else 4
    ne = c["ne"]
    yield_ = 10 ** c["logyield"]
    mag = 10 ** c["logmag"]
    pat = c["pattern"]
    if pat == "random":
        vmx = rng.random((ne, ncrit)) * mag
    elif pat == "equal":
        vmx = np.full((ne, ncrit), mag)
    elif pat == "one_peak":
        vmx = rng.random((ne, ncrit)) * mag * 1e-3
        vmx[rng.integers(ne), rng.integers(ncrit)] = mag
    elif pat == "two_close":
        vmx = rng.random((ne, ncrit)) * mag * 0.5
        vmx[0, 0] = mag
        vmx[-1, -1] = mag * (1 - 1e-9)
    else:
        vmx = np.zeros((ne, ncrit))
    surf = dict(name="wing", mesh=np.zeros((2, ne + 1, 3)), fem_model_type=c["fem"])
    surf["yield"] = yield_
    rho = c["rho"]
    o.tags = [c["fem"], "rho=%g" % rho, pat]
    p = om.Problem(reports=False)
    ivc = om.IndepVarComp()
    ivc.add_output("vonmises", val=vmx, units="N/m**2")
    p.model.add_subsystem("ivc", ivc, promotes=["*"])
    p.model.add_subsystem("ks", FailureKS(surface=surf, rho=rho), promotes_inputs=["vonmises"])
    p.model.add_subsystem("ex", FailureExact(surface=surf), promotes_inputs=["vonmises"])
    with warnings.catch_warnings(record=True) as w:
        warnings.simplefilter("always")
        p.setup()
        np.seterr(all="warn")
        p.run_model()
        np.seterr(all="ignore")
    fp = [str(x.message) for x in w if "overflow" in str(x.message) or "invalid" in str(x.message)]
    ks = float(np.ravel(p.get_val("ks.failure"))[0])
    fe = np.array(p.get_val("ex.failure"))
    ref = vmx / yield_ - 1.0
    o.true("ks/finite", bool(np.isfinite(ks)), "KS failure is not finite (stress magnitude %.1e, rho %g)" % (mag, rho))
    o.true("ks/no_overflow", not fp, "floating point overflow/invalid during aggregation: %s" % fp[:2])
    o.close("exact/definition", fe, ref, rtol=1e-13, atol=1e-13)
    N = ref.size
    sl = 1e-12 * max(1.0, abs(ref.max()))
    o.le("ks/lower_bound", ref.max(), ks, slack=sl, what="KS %.6g below max %.6g" % (ks, ref.max()))
    o.le("ks/upper_bound", ks, ref.max() + np.log(N) / rho, slack=sl, what="KS %.6g above max + ln(N)/rho = %.6g (rho=%g, N=%d)" % (ks, ref.max() + np.log(N) / rho, rho, N))
    if pat == "equal":
        o.close("ks/equal_entries_exact", ks, ref.max() + np.log(N) / rho, rtol=1e-11, atol=1e-12)
    o.nontrivial = bool(mag > 0 and pat != "zeros")


def run_closed(c, o):
    """straight rectangular cantilever solved by the real FEM; stresses against closed forms"""
    rng = np.random.default_rng(c["seed"])
    fem = c["fem"]
    ny = max(2, c["ny"])
    spec = dict(nx=c["nx"], ny=ny, half="left", span=c["span"], root_chord=c["chord"], yspacing="random", seed=c["seed"])
    s = dict(name="wing", symmetry=True, mesh=spec, fem_model_type=fem, exact_failure_constraint=True, t_over_c_cp=[0.12])
    if fem == "tube":
        s["thickness_cp"] = [0.01]
        s["fem_origin"] = 0.35
    else:
        s["spar_thickness_cp"] = [0.006]
        s["skin_thickness_cp"] = [0.009]
        s["strength_factor_for_upper_skin"] = c["tssf"]
    prob = zoo.build_struct(dict(surface=s))
    tssf = c["tssf"] if fem == "wingbox" else 1.0
    o.tags = [fem, "tssf=%g" % tssf]
    P = 10 ** rng.uniform(3, 5)

    def solve(vec6):
        f = np.zeros((ny, 6))
        f[0] = vec6  # tip is the first node of a left half mesh
        prob.set_val("loads", f)
        zoo.run(prob)
        return zoo.get(prob, "vonmises")

    if fem == "tube":
        vm0 = solve([0, -P, 0, 0, 0, 0])  # spanwise (axial) force
        A, Iy, Iz, J = (np.ravel(zoo.get(prob, q)) for q in ("A", "Iy", "Iz", "J"))
        r = np.ravel(zoo.get(prob, "radius"))
        o.close("closed/tube_axial", vm0, np.repeat((P / A)[:, None], 2, axis=1), rtol=1e-8)
        for vec, nm in (([0, 0, 0, P, 0, 0], "about x"), ([0, 0, 0, 0, 0, P], "about z")):
            vm = solve(vec)
            o.close("closed/tube_bending", vm, np.repeat((P * r / Iy)[:, None], 2, axis=1), rtol=1e-8, what="tip moment " + nm)
        vm = solve([0, 0, 0, 0, P, 0])  # torque about the beam (y) axis
        o.close("closed/tube_torsion", vm, np.repeat((np.sqrt(3.0) * P * r / J)[:, None], 2, axis=1), rtol=1e-8)
        # combined axial + bending: the two columns are tension+bending and compression+bending magnitudes
        vm = solve([0, -P, 0, P, 0, 0])
        sa, sb = P / A, P * r / Iy
        expect = np.sort(np.stack([np.abs(sa + sb), np.abs(-sa + sb)], axis=1), axis=1)
        o.close("closed/tube_combined", np.sort(vm, axis=1), expect, rtol=1e-8)
    else:
        vm = solve([0, -P, 0, 0, 0, 0])
        A, Iy, Iz, J = (np.ravel(zoo.get(prob, q)) for q in ("A", "Iy", "Iz", "J"))
        h = {q: np.ravel(zoo.get(prob, q)) for q in ("htop", "hbottom", "hfront", "hrear", "A_enc", "spar_thickness")}
        sa = P / A
        o.close("closed/wingbox_axial", vm, np.stack([sa / tssf, sa, sa, sa / tssf], axis=1), rtol=1e-8)
        # tip moment about the global x axis: bending in the vertical plane -> top/bottom skins, about local z (Iz)
        vm = solve([0, 0, 0, P, 0, 0])
        st, sb = P * h["htop"] / Iz, P * h["hbottom"] / Iz
        o.close("closed/wingbox_bending_top_bottom", vm, np.stack([st / tssf, sb, np.zeros_like(st), np.zeros_like(st)], axis=1), rtol=1e-8,
                scale=max(st.max(), sb.max()), what="tip moment about x")
        # tip moment about the global z axis: in-plane bending -> front/rear spars, about local y (Iy)
        vm = solve([0, 0, 0, 0, 0, P])
        sf, sr = P * h["hfront"] / Iy, P * h["hrear"] / Iy
        o.close("closed/wingbox_bending_front_rear", vm, np.stack([sr / tssf, sf, sf, sr / tssf], axis=1), rtol=1e-8,
                scale=max(sf.max(), sr.max()), what="tip moment about z")
        # both bending moments at once: the upper-rear corner carries (upper skin stress) + (rear spar stress) with their physical signs -
        # bending that moves the tip up compresses the upper skin, bending that moves it aft compresses the rear spar - and the lower-front
        # corner the opposite pair; the sense of each bending is read off the computed tip displacement
        P2 = P * float(rng.uniform(0.3, 0.7))
        for sx, sz in ((1.0, 1.0), (1.0, -1.0), (-1.0, 1.0)):
            vm = solve([0, 0, 0, sx * P, 0, sz * P2])
            d = zoo.get(prob, "disp")
            up, aft = d[0, 2] > 0, d[0, 0] > 0
            st, sb = P * h["htop"] / Iz, P * h["hbottom"] / Iz
            sf, sr = P2 * h["hfront"] / Iy, P2 * h["hrear"] / Iy
            sgn = 1.0 if up == aft else -1.0
            rev = np.stack([np.abs(st - sgn * sr) / tssf, np.abs(sb - sgn * sf)], axis=1)  # the spar term with the opposite sign
            o.close("closed/wingbox_biaxial_corners", vm[:, :2], np.stack([np.abs(st + sgn * sr) / tssf, np.abs(sb + sgn * sf)], axis=1), rtol=1e-8,
                    scale=max(st.max(), sb.max()), what="tip moments about x and z together (tip moves %s and %s)" % ("up" if up else "down", "aft" if aft else "forward"),
                    spar_sign_reversed=bool(np.all(np.abs(vm[:, :2] - rev) <= 1e-8 * max(st.max(), sb.max()))))
        vm = solve([0, 0, 0, 0, P, 0])
        tau = P / (2 * h["spar_thickness"] * h["A_enc"])
        s3 = np.sqrt(3.0) * tau
        o.close("closed/wingbox_torsion", vm, np.stack([s3 / tssf, s3, s3, s3 / tssf], axis=1), rtol=1e-8)
    o.nontrivial = True


def run_coupled(c, o):
    prob = zoo.build_as(dict(surfaces=c["surfaces"], flow=c["flow"]))
    zoo.run(prob)
    s = prob._oas_surfaces[0]
    vm = zoo.get(prob, "AS_point_0.wing_perf.vonmises")
    f = zoo.get(prob, "AS_point_0.wing_perf.failure")
    o.le("vm/nonnegative", -vm, 0.0, slack=0.0)
    fe = vm / s["yield"] - 1.0
    if s["exact_failure_constraint"]:
        o.close("exact/definition", f, fe, rtol=1e-12, atol=1e-12)
    else:
        o.le("ks/lower_bound", fe.max(), f, slack=1e-12)
        o.le("ks/upper_bound", f, fe.max() + np.log(fe.size) / 100.0, slack=1e-12)
    o.nontrivial = bool(vm.max() > 0)


def run_case(c):
    o = Obs()
    {"funcs": run_funcs, "ks": run_ks, "closed": run_closed, "coupled": run_coupled, "modes": run_modes}[c["kind"]](c, o)
    return o


# ---------------------------------------------------------------------------------------------- suite workload
# second workload source: the repository's own tests run under the monitor plugin (oasverif/plugin.py, oasverif/monitors.py);
# only the monitors that serve this property decide here
_cases_generated = cases
_run_case_generated = run_case


def cases(tier, seed):
    return _cases_generated(tier, seed) + [dict(kind="suite", tier=tier, _cost=200)]


def run_case(c):
    if c["kind"] != "suite":
        return _run_case_generated(c)
    from .. import suite

    o = Obs()
    suite.observe(o, "C15", c.get("tier", "quick"))
    return o
