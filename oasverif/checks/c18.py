"""C18 - viscous and wave drag estimates are well-behaved and discretisation-consistent."""
import numpy as np

from ..obs import Obs
from .. import meshes as M
from .. import zoo

LEVEL = "exploration"
RULE = ("cases = real AeroPoint models (symmetric and full-span, swept/tapered, laminar fraction 0..1 incl. exactly 0 and 1, "
        "CL0 0..0.5) driven over ladders: (switch) options off -> exactly zero; (visc) Reynolds-number ladders 1e4..1e8 1/m, "
        "thickness ladders 0.02..0.3, Mach 0.05..0.93; (wave) Mach ladders across the crest-critical Mach number recomputed "
        "from the Korn relation with the surface's reported CL, lift ladders through alpha and CL0; (mesh) constant-chord "
        "untwisted wings re-meshed with nx 2..7, ny 3..41, uniform and cosine spacing at equal lift.  Non-trivial = drag "
        "values non-zero somewhere on the ladder")
ASSUMPTIONS = ["Korn relation Mdd = ka/cos - (t/c)/cos^2 - CL/(10 cos^3), ka=0.95, Mcrit = Mdd - (0.1/80)^(1/3), area-weighted sweep and t/c (as stated in the property anchors)"]
REQUIRED_FAMILIES = ["switch/viscous_off_zero", "switch/wave_off_zero", "visc/positive", "visc/decreasing_in_Re", "visc/increasing_in_tc",
                     "wave/zero_below_Mcrit", "wave/positive_above_Mcrit", "wave/monotone_in_Mach", "wave/smooth_onset", "wave/monotone_in_lift",
                     "mesh/CDv_independent", "mesh/CDw_independent"]
LEVEL_TEXT = ("real AeroPoint models are swept over Reynolds number, thickness, Mach number and lift ladders and re-meshed; sign, "
              "monotonicity, switch semantics, smooth onset and mesh independence are checked on every ladder")
TECHNIQUE = "runtime monitoring: ladder monitors (sign, monotonicity, onset, exact-zero switch) + metamorphic re-meshing at equal lift"


def cases(tier, seed):
    rng = np.random.default_rng(18000 + seed)
    out = []
    klams = [0.0, 0.05, 0.35, 0.7, 1.0]
    n = 20 if tier == "quick" else 450
    for k in range(n):
        half = "left" if k % 2 else "full"
        spec = M.random_spec(rng, half=half, nx=int(rng.integers(2, 4)), ny=int(rng.integers(3, 8)))
        spec.update(camber=0.0, twist_tip_deg=0.0, sweep_deg=float(np.round(rng.uniform(0, 45), 2)))
        out.append(dict(kind="visc", mesh=spec, sym=(half == "left"), k_lam=klams[k % 5] if k % 10 < 5 else float(np.round(rng.random(), 3)),
                        Mach=float(np.round(rng.uniform(0.05, 0.93), 3)), alpha=float(np.round(rng.uniform(-3, 8), 2)),
                        tc=float(np.round(rng.uniform(0.04, 0.25), 3)), _cost=3))
    n = 20 if tier == "quick" else 450
    for k in range(n):
        half = "left" if k % 2 else "full"
        spec = M.random_spec(rng, half=half, nx=int(rng.integers(2, 4)), ny=int(rng.integers(3, 8)))
        spec.update(camber=0.0, twist_tip_deg=0.0, sweep_deg=float(np.round(rng.uniform(0, 40), 2)))
        out.append(dict(kind="wave", mesh=spec, sym=(half == "left"), CL0=float(np.round(rng.choice([0.0, 0.0, rng.uniform(0.05, 0.5)]), 3)),
                        alpha=float(np.round(rng.uniform(0, 6), 2)), tc=float(np.round(rng.uniform(0.06, 0.16), 3)), _cost=4))
    n = 6 if tier == "quick" else 90
    for k in range(n):
        out.append(dict(kind="mesh", sym=bool(k % 2), sweep=float(np.round(rng.choice([0.0, rng.uniform(5, 40)]), 2)), span=float(np.round(rng.uniform(6, 20), 2)),
                        chord=float(np.round(rng.uniform(0.8, 3), 2)), k_lam=klams[k % 5], CL0=float(np.round(rng.uniform(0.3, 0.6), 3)),
                        Mach=float(np.round(rng.uniform(0.8, 0.9), 3)), tc=float(np.round(rng.uniform(0.08, 0.14), 3)),
                        grids=[[2, 3], [3, 5], [4, 11], [7, 21], [2, 41], [5, 7]] if tier == "quick" else [[2, 3], [3, 5], [4, 11], [7, 21], [2, 41], [5, 7], [6, 31], [3, 13]],
                        _cost=10))
    # the same estimates for a multi-section surface (MultiSecGeometry + AeroPoint) vs the identical unified mesh given as one surface
    for k in range(6 if tier == "quick" else 90):
        ny = int(rng.integers(5, 10))
        spec = M.random_spec(rng, half="left", nx=int(rng.integers(2, 4)), ny=ny)
        spec.update(camber=0.0, twist_tip_deg=0.0, sweep_deg=float(np.round(rng.uniform(0, 35), 2)))
        ncut = int(rng.integers(1, 3))
        cuts = sorted(int(x) for x in rng.choice(np.arange(1, ny - 1), size=min(ncut, ny - 2), replace=False))
        out.append(dict(kind="msec", mesh=spec, cuts=cuts, visc=bool(k % 4 != 3), wave=bool(k % 4 != 2), Mach=float(np.round(rng.uniform(0.82, 0.92), 3)),
                        alpha=float(np.round(rng.uniform(2, 7), 2)), CL0=float(np.round(rng.uniform(0.1, 0.4), 3)), tc=float(np.round(rng.uniform(0.1, 0.16), 3)),
                        k_lam=float(rng.choice([0.0, 0.05, 0.3])), _cost=4))
    for k in range(8 if tier == "quick" else 120):
        half = "left" if k % 2 else "full"
        spec = M.random_spec(rng, half=half, nx=2, ny=int(rng.integers(3, 6)))
        out.append(dict(kind="switch", mesh=spec, sym=(half == "left"), visc=bool(k % 4 < 2), wave=bool(k % 4 in (1, 2)), Mach=0.9, alpha=5.0))
    return out


def build(c, spec, **kw):
    ny = spec["ny"]
    s = dict(name="wing", symmetry=c["sym"], mesh=spec, with_viscous=kw.get("visc", True), with_wave=kw.get("wave", True), k_lam=c.get("k_lam", 0.05),
             CL0=c.get("CL0", 0.0), CD0=0.0, t_over_c_cp=[c.get("tc", 0.12)] * (ny - 1))
    flow = dict(alpha=c.get("alpha", 3.0), Mach_number=c.get("Mach", 0.5), re=1e6, v=200.0, rho=0.6)
    return zoo.build_aero(dict(surfaces=[s], flow=flow), geom=False)


def get(prob, n):
    return float(np.ravel(prob.get_val("aero.wing_perf." + n))[0])


def run_visc(c, o):
    prob = build(c, c["mesh"])
    o.tags = ["k_lam=%g" % c["k_lam"], "sym" if c["sym"] else "full"]
    res = 10 ** np.linspace(4, 8, 17)
    cd = []
    for re in res:
        prob.set_val("re", re)
        zoo.run(prob)
        cd.append(get(prob, "CDv"))
    cd = np.array(cd)
    o.true("visc/finite", bool(np.all(np.isfinite(cd))), "non-finite CDv")
    o.le("visc/positive", -cd, 0.0, slack=-1e-300, what="CDv must be positive (min %.3e)" % cd.min())
    o.le("visc/decreasing_in_Re", np.diff(cd), 0.0, slack=0.0, what="CDv must decrease with Reynolds number: %s" % np.round(cd, 6).tolist())
    prob.set_val("re", 1e6)
    ny = c["mesh"]["ny"]
    cdt = []
    for tc in np.linspace(0.02, 0.3, 9):
        prob.set_val("wing.t_over_c", np.full(ny - 1, tc))
        zoo.run(prob)
        cdt.append(get(prob, "CDv"))
    o.le("visc/increasing_in_tc", -np.diff(cdt), 0.0, slack=0.0, what="CDv must increase with thickness ratio: %s" % np.round(cdt, 6).tolist())
    o.info = dict(CDv_vs_re=[float(cd[0]), float(cd[-1])])
    o.nontrivial = bool(cd.max() > 0)


def korn_mcrit(prob, CL):
    """crest-critical Mach number from the Korn relation with area-weighted sweep cosine and t/c"""
    widths = np.ravel(prob.get_val("aero.wing.widths"))
    ls = np.ravel(prob.get_val("aero.wing.lengths_spanwise"))
    chords = np.ravel(prob.get_val("aero.wing.chords"))
    tc = np.ravel(prob.get_val("wing.t_over_c"))
    area = 0.5 * (chords[:-1] + chords[1:]) * widths
    cs = np.sum(widths / ls * area) / area.sum()
    t = np.sum(tc * area) / area.sum()
    mdd = 0.95 / cs - t / cs**2 - CL / (10 * cs**3)
    return mdd - (0.1 / 80.0) ** (1.0 / 3.0)


def lift_monotone(o, cls, cws, how):
    """CDw is non-decreasing in lift, strictly increasing once it is positive (below onset it stays exactly zero)"""
    cls = np.asarray(cls)
    cws = np.asarray(cws)
    o.le("wave/monotone_in_lift", -np.diff(cws), 0.0, slack=0.0, what="CDw must not fall when lift rises (%s): CL %s CDw %s" % (how, cls.tolist(), cws.tolist()))
    pos = cws[:-1] > 0
    if pos.any():
        o.le("wave/monotone_in_lift", -np.diff(cws)[pos], 0.0, slack=-1e-300, what="CDw must grow with lift (%s): CL %s CDw %s" % (how, cls.tolist(), cws.tolist()))


def run_wave(c, o):
    prob = build(c, c["mesh"])
    o.tags = ["CL0=%g" % c["CL0"], "sym" if c["sym"] else "full"]
    zoo.run(prob)
    CL = get(prob, "CL")
    Mc = korn_mcrit(prob, CL)
    o.info = dict(Mcrit=float(Mc), CL=CL)
    if not (0.3 < Mc < 0.93):
        o.info["skipped"] = "Mcrit outside the swept Mach range"
        return
    Ms = np.concatenate([np.linspace(max(0.05, Mc - 0.3), Mc - 1e-6, 6), Mc + np.array([1e-3, 3e-3, 1e-2, 2e-2, 3e-2, 4e-2, 5e-2])])
    Ms = Ms[Ms < 0.95]
    cw = []
    for Mn in Ms:
        prob.set_val("Mach_number", Mn)
        zoo.run(prob)
        cw.append(get(prob, "CDw"))
        # CL does not depend on Mach in the incompressible solver; guard the assumption
    cw = np.array(cw)
    below = Ms <= Mc
    o.close("wave/zero_below_Mcrit", cw[below], 0.0, rtol=0, atol=0, what="CDw must be exactly zero up to Mcrit=%.4f (CL=%.4f)" % (Mc, CL))
    o.le("wave/positive_above_Mcrit", -cw[~below], 0.0, slack=-1e-300, what="CDw must be positive above Mcrit=%.4f: %s" % (Mc, cw[~below].tolist()))
    o.le("wave/monotone_in_Mach", -np.diff(cw[~below]), 0.0, slack=-1e-300, what="CDw must increase with Mach beyond Mcrit")
    # smooth onset: value and slope vanish at Mcrit (a quartic rise: 1e-3 above onset the drag is still < 1e-9)
    o.le("wave/smooth_onset", cw[~below][0], 1e-9, slack=0.0, what="CDw 1e-3 above Mcrit is %.3e" % cw[~below][0])
    d = np.diff(cw[~below]) / np.diff(Ms[~below])
    o.le("wave/smooth_onset", -np.diff(d), 0.0, slack=0.0, what="slope of CDw must grow from zero beyond onset")
    # more lift (through alpha and through CL0) -> more wave drag at a fixed supercritical Mach number
    Msup = min(0.94, Mc + 0.04)
    prob.set_val("Mach_number", Msup)
    vals = []
    for da in (0.0, 1.0, 2.0):
        prob.set_val("alpha", c["alpha"] + da)
        zoo.run(prob)
        vals.append((get(prob, "CL"), get(prob, "CDw")))
    cls = np.array([v[0] for v in vals])
    cws = np.array([v[1] for v in vals])
    if np.all(np.diff(cls) > 0):
        lift_monotone(o, cls, cws, "alpha")
    # the same through negative lift: the Korn relation uses the signed lift coefficient, so a down-loaded surface has a HIGHER
    # critical Mach number; at Msup the wave drag is exactly zero wherever Msup <= Mcrit(CL) and never falls as CL rises
    vals = []
    for al in (-(c["alpha"] + 3.0), -(c["alpha"] + 1.0), -1.0, c["alpha"], c["alpha"] + 2.0):
        prob.set_val("alpha", al)
        zoo.run(prob)
        cl_, cw_ = get(prob, "CL"), get(prob, "CDw")
        vals.append((cl_, cw_))
        mca = korn_mcrit(prob, cl_)
        if Msup <= mca - 1e-9:
            o.close("wave/zero_below_Mcrit", cw_, 0.0, rtol=0, atol=0, what="CDw must be exactly zero at M=%.4f <= Mcrit(CL=%.4f)=%.4f" % (Msup, cl_, mca))
        elif Msup > mca + 1e-3:
            o.le("wave/positive_above_Mcrit", -cw_, 0.0, slack=-1e-300, what="CDw must be positive at M=%.4f > Mcrit(CL=%.4f)=%.4f" % (Msup, cl_, mca))
    vals.sort()
    if np.all(np.diff([v[0] for v in vals]) > 0):
        lift_monotone(o, [v[0] for v in vals], [v[1] for v in vals], "alpha through negative lift")
    vals = []
    for cl0 in (-0.3, -0.15, 0.0, 0.15, 0.3):
        cc = dict(c, CL0=cl0, Mach=Msup)
        p2 = build(cc, c["mesh"])
        zoo.run(p2)
        vals.append((get(p2, "CL"), get(p2, "CDw")))
        o.close("wave/lift_includes_CL0", vals[-1][0], cl0 + get(p2, "CL1"), rtol=1e-12, atol=1e-14)
        mc2 = korn_mcrit(p2, vals[-1][0])
        if Msup <= mc2 - 1e-9:
            o.close("wave/zero_below_Mcrit", vals[-1][1], 0.0, rtol=0, atol=0, what="CDw must be exactly zero at M=%.4f <= Mcrit=%.4f (CL0=%g)" % (Msup, mc2, cl0))
        if Msup > mc2 + 1e-3:
            o.le("wave/positive_above_Mcrit", -vals[-1][1], 0.0, slack=-1e-300, what="CDw must be positive above the Mcrit of the surface's total CL (CL0=%g)" % cl0)
    cws = np.array([v[1] for v in vals])
    lift_monotone(o, [v[0] for v in vals], cws, "CL0")
    o.nontrivial = bool(cw.max() > 0)


def run_mesh(c, o):
    vals = []
    for nx, ny in c["grids"]:
        for sp in ("uniform", "cos"):
            spec = dict(nx=nx, ny=ny if not (not c["sym"] and ny % 2 == 0) else ny + 1, half="left" if c["sym"] else "full", span=c["span"], root_chord=c["chord"],
                        sweep_deg=c["sweep"], yspacing=sp, xspacing=sp)
            cc = dict(c, alpha=0.0)
            prob = build(cc, spec)
            zoo.run(prob)
            vals.append((get(prob, "CDv"), get(prob, "CDw"), get(prob, "CL")))
    v = np.array(vals)
    o.tags = ["sym" if c["sym"] else "full", "sweep=%g" % c["sweep"], "k_lam=%g" % c["k_lam"]]
    o.close("mesh/equal_lift", v[:, 2], c["CL0"], rtol=1e-10, what="flat untwisted wing at alpha=0 must carry CL = CL0 on every mesh")
    o.close("mesh/CDv_independent", v[:, 0], v[0, 0], rtol=1e-10, what="CDv over %d meshes" % len(v))
    o.close("mesh/CDw_independent", v[:, 1], v[0, 1], rtol=1e-9, atol=1e-16, what="CDw over %d meshes" % len(v))
    o.info = dict(CDv=float(v[0, 0]), CDw=float(v[0, 1]))
    o.nontrivial = bool(v[0, 0] > 0 and v[0, 1] > 0)


def run_switch(c, o):
    prob = build(dict(c, k_lam=0.05, CL0=0.2, tc=0.14), c["mesh"], visc=c["visc"], wave=c["wave"])
    zoo.run(prob)
    cdv, cdw, cdi, cd = (get(prob, n) for n in ("CDv", "CDw", "CDi", "CD"))
    if not c["visc"]:
        o.close("switch/viscous_off_zero", cdv, 0.0, rtol=0, atol=0)
    else:
        o.le("visc/positive", -cdv, 0.0, slack=-1e-300)
    if not c["wave"]:
        o.close("switch/wave_off_zero", cdw, 0.0, rtol=0, atol=0)
    o.close("switch/CD_is_sum", cd, cdi + cdv + cdw + 0.0, rtol=1e-13)
    o.nontrivial = True


def run_msec(c, o):
    import warnings

    import openmdao.api as om
    from openaerostruct.geometry.geometry_group import MultiSecGeometry, build_sections
    from openaerostruct.geometry.geometry_unification import unify_mesh
    from openaerostruct.aerodynamics.aero_groups import AeroPoint

    mesh = M.build(c["mesh"])
    edges = [0] + list(c["cuts"]) + [mesh.shape[1] - 1]
    parts = [mesh[:, edges[i]:edges[i + 1] + 1, :].copy() for i in range(len(edges) - 1)]
    ns = len(parts)
    surface = {"name": "wing", "is_multi_section": True, "num_sections": ns, "sec_name": ["sec%d" % i for i in range(ns)], "symmetry": True,
               "S_ref_type": "wetted", "meshes": [q.copy() for q in parts], "CL0": c["CL0"], "CD0": 0.0, "k_lam": c["k_lam"],
               "t_over_c_cp": [np.array([c["tc"]]) for _ in range(ns)], "c_max_t": 0.303, "with_viscous": c["visc"], "with_wave": c["wave"]}
    prob = om.Problem(reports=False)
    ivc = om.IndepVarComp()
    fl = dict(zoo.FLOW_DEFAULT)
    fl.update(alpha=c["alpha"], Mach_number=c["Mach"], re=1e6, v=200.0, rho=0.6)
    for n_ in ("v", "alpha", "Mach_number", "re", "rho", "cg"):
        ivc.add_output(n_, val=np.array(fl[n_], float), units=zoo.FLOW_UNITS[n_])
    prob.model.add_subsystem("fc", ivc, promotes=["*"])
    prob.model.add_subsystem("wing", MultiSecGeometry(surface=surface))
    secs = build_sections(surface)
    surface["mesh"] = unify_mesh(secs)
    prob.model.add_subsystem("aero", AeroPoint(surfaces=[surface]), promotes_inputs=["v", "alpha", "Mach_number", "re", "rho", "cg"])
    prob.model.connect("wing.wing_unification.wing_uni_mesh", "aero.wing.def_mesh")
    prob.model.connect("wing.wing_unification.wing_uni_mesh", "aero.aero_states.wing_def_mesh")
    prob.model.connect("wing.wing_unification.wing_uni_t_over_c", "aero.wing_perf.t_over_c")
    with warnings.catch_warnings():
        warnings.simplefilter("ignore")
        prob.setup()
    zoo.run(prob)
    single = build(dict(c, sym=True), dict(array=mesh.tolist(), ny=mesh.shape[1]), visc=c["visc"], wave=c["wave"])
    zoo.run(single)
    o.tags = ["multi_section", "nsec=%d" % ns, "visc" if c["visc"] else "novisc", "wave" if c["wave"] else "nowave"]
    o.close("msec/mesh_is_the_single_mesh", prob.get_val("wing.wing_unification.wing_uni_mesh"), mesh, rtol=1e-13, scale=np.abs(mesh).max())
    for q in ("CL", "CDi", "CDv", "CDw", "CD"):
        o.close("msec/" + q, get(prob, q), get(single, q), rtol=1e-10, atol=1e-15, what="%s of the multi-section surface vs the same mesh as one surface" % q)
    if not c["visc"]:
        o.close("switch/viscous_off_zero", get(prob, "CDv"), 0.0, rtol=0, atol=0)
    else:
        o.le("visc/positive", -get(prob, "CDv"), 0.0, slack=-1e-300)
    if not c["wave"]:
        o.close("switch/wave_off_zero", get(prob, "CDw"), 0.0, rtol=0, atol=0)
    else:
        mc = korn_mcrit(single, get(single, "CL"))
        if c["Mach"] > mc + 1e-3:
            o.le("wave/positive_above_Mcrit", -get(prob, "CDw"), 0.0, slack=-1e-300, what="CDw of the multi-section surface must be positive above Mcrit=%.4f" % mc)
    o.nontrivial = True


def run_case(c):
    o = Obs()
    {"visc": run_visc, "wave": run_wave, "mesh": run_mesh, "switch": run_switch, "msec": run_msec}[c["kind"]](c, o)
    return o


# ---------------------------------------------------------------------------------------------- suite workload
# second workload source: the repository's own tests run under the monitor plugin (oasverif/plugin.py, oasverif/monitors.py);
# only the monitors that serve this property decide here
_cases_generated = cases
_run_case_generated = run_case


def cases(tier, seed):
    return _cases_generated(tier, seed) + [dict(kind="suite", tier=tier, _cost=200)]


def run_case(c):
    if c["kind"] != "suite":
        return _run_case_generated(c)
    from .. import suite

    o = Obs()
    suite.observe(o, "C18", c.get("tier", "quick"))
    return o
