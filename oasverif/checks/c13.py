"""C13 - geometry design variables act as documented; defaults leave the mesh unchanged."""
import numpy as np

from ..obs import Obs
from .. import meshes as M
from .. import zoo

LEVEL = "exploration"
RULE = ("cases = the real Geometry group on harness meshes (flat, pre-twisted, cambered, with dihedral, displaced; left-half "
        "symmetric and full span; reference axis at 0/0.25/0.5/0.6/1; 1-6 control points): (default) no design variable "
        "changed -> mesh must come out unchanged; (single) each design variable alone against its documented effect "
        "(extent, shear law, invariants, sign); (combo) random combinations against the effects composed in the documented "
        "order; (spline) equal control points -> constant distributions incl. the structural thickness/radius splines.  "
        "Non-trivial = the variable moved the mesh by more than 1e-6 (or the case is a default/spline case)")
ASSUMPTIONS = ["documented meaning of each design variable as stated in the property (reference formulas in this file)"]
REQUIRED_FAMILIES = ["default/mesh_unchanged", "span/extent", "sweep/shear_law", "dihedral/shear_law", "taper/chord_ratio_linear",
                     "chord/scaling_about_axis", "twist/chord_length_preserved", "twist/axis_fixed", "twist/angle", "shear/pure_translation",
                     "spline/equal_cp_constant", "combo/composed_reference", "chord/length_ratio", "combo/dihedral_after_varying_yshear"]
LEVEL_TEXT = ("the real Geometry group is executed on generated input meshes and design-variable values and its output mesh is "
              "compared with the documented effect of every variable (alone and composed in the documented order) and with the "
              "input mesh at default values")
TECHNIQUE = "runtime monitoring: specification oracle (documented effect of each design variable as direct array formulas) on Geometry outputs"

DVS = ["span", "sweep", "dihedral", "taper", "chord", "twist", "xshear", "yshear", "zshear"]


# ---------------------------------------------------------------------------------------------- specification
def root_index(mesh, sym):
    return mesh.shape[1] - 1 if sym else (mesh.shape[1] - 1) // 2


def ref_axis(mesh, rap):
    return rap * mesh[-1] + (1 - rap) * mesh[0]


def spec_taper(mesh, lam, sym, rap):
    ax = ref_axis(mesh, rap)
    r = root_index(mesh, sym)
    d = np.abs(ax[:, 1] - ax[r, 1])
    semi = d.max()
    ratio = 1.0 + (lam - 1.0) * d / semi
    return ax[None] + (mesh - ax[None]) * ratio[None, :, None]


def spec_chord(mesh, c, rap):
    ax = ref_axis(mesh, rap)
    # similarity about the reference-axis point of each section (identical to an x-only scaling when the chords are parallel to x)
    return ax[None] + (mesh - ax[None]) * c[None, :, None]


def spec_sweep(mesh, deg, sym):
    r = root_index(mesh, sym)
    le = mesh[0]
    out = mesh.copy()
    out[:, :, 0] += np.tan(np.deg2rad(deg)) * np.abs(le[:, 1] - le[r, 1])[None, :]
    return out


def spec_dihedral(mesh, deg, sym):
    r = root_index(mesh, sym)
    le = mesh[0]
    out = mesh.copy()
    out[:, :, 2] += np.tan(np.deg2rad(deg)) * np.abs(le[:, 1] - le[r, 1])[None, :]
    return out


def spec_span(mesh, b, sym, rap):
    ax = ref_axis(mesh, rap)
    prev = ax[-1, 1] - ax[0, 1]
    tgt = b / 2.0 if sym else b
    out = mesh.copy()
    out[:, :, 1] = (ax[:, 1] * tgt / prev)[None, :]
    return out


def spec_shear(mesh, axis, vals):
    out = mesh.copy()
    out[:, :, axis] += vals[None, :]
    return out


def spec_twist_flat(mesh, deg, sym, rap):
    """twist about the reference axis; the rotation follows the local dihedral of the axis (twist is applied perpendicular to
    the wing).  Specified here only for meshes whose chords are flat (all points of a chord share y and z)."""
    ax = ref_axis(mesh, rap)
    ny = mesh.shape[1]
    r = root_index(mesh, sym)
    thx = np.zeros(ny)
    for j in range(ny):
        if j == r:
            continue
        k = j + 1 if j < r else j - 1  # neighbour towards the root
        thx[j] = np.arctan((ax[j, 2] - ax[k, 2]) / (ax[j, 1] - ax[k, 1]))
    out = np.empty_like(mesh)
    for j in range(ny):
        t = np.deg2rad(deg[j])
        Ry = np.array([[np.cos(t), 0, np.sin(t)], [0, 1, 0], [-np.sin(t), 0, np.cos(t)]])
        cx, sx = np.cos(thx[j]), np.sin(thx[j])
        Rx = np.array([[1, 0, 0], [0, cx, -sx], [0, sx, cx]])
        out[:, j, :] = (mesh[:, j, :] - ax[j]) @ (Rx @ Ry).T + ax[j]
    return out


# ---------------------------------------------------------------------------------------------- cases
def base_spec(rng, kind, half):
    spec = M.random_spec(rng, half=half, nx=int(rng.integers(2, 5)), ny=int(rng.integers(3, 10)))
    spec.update(camber=0.0, twist_tip_deg=0.0, dihedral_deg=0.0, sweep_deg=float(np.round(rng.uniform(0, 25), 2)))
    if kind == "pretwisted":
        spec["twist_tip_deg"] = float(np.round(rng.uniform(1, 5), 2))
    elif kind == "cambered":
        spec["camber"] = float(np.round(rng.uniform(0.01, 0.05), 3))
    elif kind == "dihedral":
        spec["dihedral_deg"] = float(np.round(rng.uniform(2, 12), 2))
    elif kind == "cambered_dihedral":
        spec["camber"] = float(np.round(rng.uniform(0.01, 0.05), 3))
        spec["dihedral_deg"] = float(np.round(rng.uniform(2, 12), 2))
    elif kind == "displaced_xz":
        spec["offset"] = [float(np.round(rng.uniform(-5, 20), 2)), 0.0, float(np.round(rng.uniform(-2, 3), 2))]
    elif kind == "displaced_y":
        spec["offset"] = [0.0, float(np.round(rng.uniform(1, 5), 2)) * (-1 if half == "left" else 1), 0.0]
    return spec


def rand_vals(rng, dv, ncp, spec):
    if dv == "span":
        return float(np.round(spec["span"] * rng.uniform(0.5, 1.8), 3))
    if dv == "sweep":
        return float(np.round(rng.uniform(-20, 35), 2))
    if dv == "dihedral":
        return float(np.round(rng.uniform(-8, 15), 2))
    if dv == "taper":
        return float(np.round(rng.uniform(0.2, 1.5), 3))
    if dv == "chord":
        return [float(np.round(rng.uniform(0.5, 2.0), 3))] * ncp
    if dv == "twist":
        return [float(np.round(rng.uniform(-8, 8), 2))] * ncp
    return [float(np.round(rng.uniform(-1, 1), 3))] * ncp


def cases(tier, seed):
    rng = np.random.default_rng(13000 + seed)
    out = []
    kinds = ["flat", "pretwisted", "cambered", "dihedral", "cambered_dihedral", "displaced_xz", "displaced_y"]
    raps = [0.0, 0.25, 0.5, 0.6, 1.0]
    reps = 2 if tier == "quick" else 36
    for rep in range(reps):
        for kind in kinds:
            for half in ("left", "full"):
                spec = base_spec(rng, kind, half)
                rap = raps[int(rng.integers(len(raps)))]
                out.append(dict(kind="default", mesh_kind=kind, mesh=spec, sym=(half == "left"), rap=rap, with_keys=bool(rng.integers(2)),
                                ncp=int(rng.integers(1, 7))))
    reps = 2 if tier == "quick" else 42
    for rep in range(reps):
        for dv in DVS:
            for half in ("left", "full"):
                kind = str(rng.choice(["flat", "dihedral", "displaced_xz", "flat"]))
                if dv == "taper" and rep % 2 == 1 and half == "left":
                    kind = "displaced_y"  # a surface that does not touch the symmetry plane
                if dv in ("taper", "chord") and rep % 2 == 0:
                    # chords that are not parallel to x: scaling about the reference axis acts on all three coordinates of the chord vector
                    # (reference axis kept level - camber, or washout about the axis itself - so that the recorded Rotate finding
                    # C13/rotate_x_nonflat_chord does not enter)
                    kind = ["cambered", "pretwisted"][(rep // 2 + (half == "left")) % 2]
                spec = base_spec(rng, kind, half)
                rap = raps[int(rng.integers(len(raps)))] if rep % 2 else [0.0, 0.25, 1.0][(rep // 2) % 3]
                if kind == "pretwisted":
                    rap = 0.25  # the harness mesh is washed out about its quarter-chord line
                ncp = int(rng.integers(1, 7))
                out.append(dict(kind="single", dv=dv, mesh_kind=kind, mesh=spec, sym=(half == "left"), rap=rap, ncp=ncp, val=rand_vals(rng, dv, ncp, spec),
                                rap_key=bool(rap != 0.25 or rng.integers(2))))
    n = 30 if tier == "quick" else 900
    for k in range(n):
        half = "left" if k % 2 else "full"
        spec = base_spec(rng, "flat" if k % 3 else "displaced_xz", half)
        rap = raps[int(rng.integers(len(raps)))]
        sub = [dv for dv in DVS if rng.random() < 0.5] or ["sweep"]
        ncp = int(rng.integers(1, 7))
        out.append(dict(kind="combo", mesh=spec, sym=(half == "left"), rap=rap, ncp=ncp, vals={dv: rand_vals(rng, dv, ncp, spec) for dv in sub}))
    n = 16 if tier == "quick" else 360
    for k in range(n):
        half = "left" if k % 2 else "full"
        spec = base_spec(rng, "flat", half)
        out.append(dict(kind="spline", mesh=spec, sym=(half == "left"), ncp=int(rng.integers(1, 7)), fem="tube" if k % 2 else "wingbox",
                        value=float(np.round(rng.uniform(0.2, 2.0), 4)), _cost=3))
    # histories on one live Geometry problem: design variables moved away from their defaults, back to them exactly, and away again;
    # after every step the mesh must be the one a fresh problem gives for the same values (and the input mesh at the defaults)
    n = 12 if tier == "quick" else 240
    for k in range(n):
        half = "left" if k % 2 else "full"
        spec = base_spec(rng, "flat", half)
        rap = raps[int(rng.integers(len(raps)))]
        ncp = int(rng.integers(1, 4))
        sub = [dv for dv in DVS if rng.random() < 0.6] or ["taper"]
        if k % 3 == 0 and "taper" not in sub:
            sub.append("taper")
        steps = []
        for j in range(5):
            if j in (1, 4):
                steps.append({})  # every variable exactly at its default
            else:
                steps.append({dv: rand_vals(rng, dv, ncp, spec) for dv in sub if rng.random() < 0.7 or j == 0})
        out.append(dict(kind="hist", mesh=spec, sym=(half == "left"), rap=rap, ncp=ncp, dvs=sub, steps=steps))
    # shears with varying control points: each section is translated rigidly
    n = 10 if tier == "quick" else 180
    for k in range(n):
        half = "left" if k % 2 else "full"
        # a varying z shear gives the reference axis dihedral, so cambered chords would hit the rotate_x finding
        spec = base_spec(rng, str(rng.choice(["flat", "dihedral"] if k % 3 >= 1 else ["flat", "cambered", "dihedral"])), half)
        ncp = int(rng.integers(2, 6))
        out.append(dict(kind="shear_var", axis=int(k % 3), mesh=spec, sym=(half == "left"), ncp=ncp, cps=[float(x) for x in np.round(rng.uniform(-1, 1, ncp), 3)]))
    return out


# ---------------------------------------------------------------------------------------------- running the real group
def surface_for(c, mesh, vals):
    s = dict(name="wing", symmetry=c["sym"], mesh=mesh.copy(), S_ref_type="wetted")
    if c.get("rap_key", True):
        s["ref_axis_pos"] = c["rap"]
    for dv, v in vals.items():
        key = dv + "_cp" if dv in ("chord", "twist", "xshear", "yshear", "zshear") else dv
        s[key] = np.array(v, float) if isinstance(v, list) else v
    return s


def run_geometry(surface, sets=None):
    import openmdao.api as om
    from openaerostruct.geometry.geometry_group import Geometry

    p = om.Problem(reports=False)
    p.model.add_subsystem("g", Geometry(surface=surface), promotes=["*"])
    import warnings

    with warnings.catch_warnings():
        warnings.simplefilter("ignore")
        p.setup()
        for k, v in (sets or {}).items():
            p.set_val(k, v)
        p.run_model()
    return p


def defaults_for(mesh, c, dvs):
    ax = ref_axis(mesh, c["rap"])
    span = (ax[:, 1].max() - ax[:, 1].min()) * (2.0 if c["sym"] else 1.0)
    d = dict(span=span, sweep=0.0, dihedral=0.0, taper=1.0, chord=[1.0] * c["ncp"], twist=[0.0] * c["ncp"], xshear=[0.0] * c["ncp"],
             yshear=[0.0] * c["ncp"], zshear=[0.0] * c["ncp"])
    return {k: d[k] for k in dvs}


def nonflat(mesh):
    return bool(np.abs(mesh[:, :, 2] - mesh[0:1, :, 2]).max() > 1e-12)


def axis_has_dihedral(mesh, rap):
    ax = ref_axis(mesh, rap)
    return bool(np.abs(np.diff(ax[:, 2])).max() > 1e-12)


def run_default(c, o):
    mesh = M.build(c["mesh"])
    vals = defaults_for(mesh, c, DVS) if c["with_keys"] else {}
    s = surface_for(dict(c, rap_key=True), mesh, vals)
    p = run_geometry(s)
    out = np.array(p.get_val("mesh"))
    tags = [c["mesh_kind"], "sym" if c["sym"] else "full", "nonflat_chords" if nonflat(mesh) else "flat_chords",
            "axis_dihedral" if axis_has_dihedral(mesh, c["rap"]) else "axis_level", "keys" if c["with_keys"] else "nokeys"]
    o.tags = tags
    o.close("default/mesh_unchanged", out, mesh, rtol=1e-13, scale=np.abs(mesh).max(), what="Geometry at default design-variable values changed the mesh")
    o.true("default/user_mesh_untouched", np.array_equal(s["mesh"], mesh), "the surface dict mesh was modified")
    o.nontrivial = True


def run_single(c, o):
    mesh = M.build(c["mesh"])
    dv, sym, rap = c["dv"], c["sym"], c["rap"]
    s = surface_for(c, mesh, {dv: c["val"]})
    p = run_geometry(s)
    out = np.array(p.get_val("mesh"))
    scale = np.abs(mesh).max()
    tags = [dv, c["mesh_kind"], "sym" if sym else "full", "rap=%g" % rap, "rap_key" if c.get("rap_key", True) else "rap_default"]
    if abs(ref_axis(mesh, rap)[root_index(mesh, sym), 1]) > 1e-9:
        tags.append("root_off_y0")
    o.tags = tags
    ax0 = ref_axis(mesh, rap)
    ax1 = ref_axis(out, rap)
    r = root_index(mesh, sym)
    T = 1e-11
    if dv == "span":
        ext = ax1[:, 1].max() - ax1[:, 1].min()
        o.close("span/extent", ext, c["val"] / 2 if sym else c["val"], rtol=1e-12)
        o.close("span/xz_unchanged", out[:, :, [0, 2]], mesh[:, :, [0, 2]], rtol=T, scale=scale)
        o.close("span/stations_proportional", (ax1[:, 1] - ax1[r, 1]) / ext, (ax0[:, 1] - ax0[r, 1]) / (ax0[:, 1].max() - ax0[:, 1].min()), rtol=1e-11, scale=1.0)
        o.close("span/reference", out, spec_span(mesh, c["val"], sym, rap), rtol=T, scale=scale)
    elif dv == "sweep":
        exp = spec_sweep(mesh, c["val"], sym)
        o.close("sweep/shear_law", out, exp, rtol=T, scale=scale)
        o.close("sweep/yz_unchanged", out[:, :, 1:], mesh[:, :, 1:], rtol=T, scale=scale)
        tip = 0 if sym else -1
        o.true("sweep/positive_is_aft", np.sign(out[0, tip, 0] - mesh[0, tip, 0]) == np.sign(c["val"]), "positive sweep must move the tip aft")
    elif dv == "dihedral":
        exp = spec_dihedral(mesh, c["val"], sym)
        o.close("dihedral/shear_law", out, exp, rtol=T, scale=scale)
        o.close("dihedral/xy_unchanged", out[:, :, :2], mesh[:, :, :2], rtol=T, scale=scale)
        tip = 0 if sym else -1
        o.true("dihedral/positive_is_up", np.sign(out[0, tip, 2] - mesh[0, tip, 2]) == np.sign(c["val"]), "positive dihedral must move the tip up")
    elif dv == "taper":
        exp = spec_taper(mesh, c["val"], sym, rap)
        o.close("taper/chord_ratio_linear", out, exp, rtol=T, scale=scale)
        o.close("taper/axis_fixed", ax1, ax0, rtol=T, scale=scale)
        ch0 = np.linalg.norm(mesh[-1] - mesh[0], axis=1)
        ch1 = np.linalg.norm(out[-1] - out[0], axis=1)
        tip = 0 if sym else -1
        o.close("taper/root_1_tip_lambda", [ch1[r] / ch0[r], ch1[tip] / ch0[tip]], [1.0, c["val"]], rtol=1e-11)
    elif dv == "chord":
        exp = spec_chord(mesh, np.full(mesh.shape[1], c["val"][0]), rap)
        o.close("chord/scaling_about_axis", out, exp, rtol=T, scale=scale)
        o.close("chord/axis_fixed", ax1, ax0, rtol=T, scale=scale)
        # the chord itself (distance leading edge - trailing edge, whatever its direction) is what is scaled
        o.close("chord/length_ratio", np.linalg.norm(out[-1] - out[0], axis=1) / np.linalg.norm(mesh[-1] - mesh[0], axis=1), np.full(mesh.shape[1], c["val"][0]), rtol=1e-11)
    elif dv == "twist":
        th = c["val"][0]
        ch0 = np.linalg.norm(mesh[-1] - mesh[0], axis=1)
        ch1 = np.linalg.norm(out[-1] - out[0], axis=1)
        o.close("twist/chord_length_preserved", ch1, ch0, rtol=1e-12)
        o.close("twist/axis_fixed", ax1, ax0, rtol=T, scale=scale)
        v0 = mesh[-1] - mesh[0]
        v1 = out[-1] - out[0]
        cosang = np.einsum("ij,ij->i", v0, v1) / (ch0 * ch1)
        o.close("twist/angle", np.degrees(np.arccos(np.clip(cosang, -1, 1))), abs(th), rtol=0, atol=1e-6)
        # positive twist raises the leading edge relative to the trailing edge
        o.true("twist/positive_is_nose_up", bool(np.all(np.sign((out[0, :, 2] - out[-1, :, 2]) - (mesh[0, :, 2] - mesh[-1, :, 2])) == np.sign(th))),
               "positive twist must rotate the leading edge up")
        o.close("twist/reference", out, spec_twist_flat(mesh, np.full(mesh.shape[1], th), sym, rap), rtol=T, scale=scale)
    else:
        axis = dict(xshear=0, yshear=1, zshear=2)[dv]
        exp = spec_shear(mesh, axis, np.full(mesh.shape[1], c["val"][0]))
        o.close("shear/pure_translation", out, exp, rtol=T, scale=scale)
    o.nontrivial = bool(np.abs(out - mesh).max() > 1e-6)


def run_combo(c, o):
    mesh = M.build(c["mesh"])
    sym, rap = c["sym"], c["rap"]
    s = surface_for(dict(c, rap_key=True), mesh, c["vals"])
    p = run_geometry(s)
    out = np.array(p.get_val("mesh"))
    v = c["vals"]
    ny = mesh.shape[1]
    m = mesh.copy()
    if "taper" in v:
        m = spec_taper(m, v["taper"], sym, rap)
    if "chord" in v:
        m = spec_chord(m, np.full(ny, v["chord"][0]), rap)
    if "sweep" in v:
        m = spec_sweep(m, v["sweep"], sym)
    if "xshear" in v:
        m = spec_shear(m, 0, np.full(ny, v["xshear"][0]))
    if "span" in v:
        m = spec_span(m, v["span"], sym, rap)
    if "yshear" in v:
        m = spec_shear(m, 1, np.full(ny, v["yshear"][0]))
    if "dihedral" in v:
        m = spec_dihedral(m, v["dihedral"], sym)
    if "zshear" in v:
        m = spec_shear(m, 2, np.full(ny, v["zshear"][0]))
    if "twist" in v:
        m = spec_twist_flat(m, np.full(ny, v["twist"][0]), sym, rap)
    o.tags = ["combo", "sym" if sym else "full"] + sorted(v)
    o.close("combo/composed_reference", out, m, rtol=1e-11, scale=np.abs(mesh).max(), what="combination %s" % sorted(v))
    o.nontrivial = bool(np.abs(out - mesh).max() > 1e-6)


def run_spline(c, o):
    import openmdao.api as om
    from openaerostruct.integration.aerostruct_groups import AerostructGeometry
    import warnings

    val, ncp = c["value"], c["ncp"]
    sd = dict(name="wing", symmetry=c["sym"], mesh=c["mesh"], fem_model_type=c["fem"], t_over_c_cp=[0.1 * val / 2 + 0.05] * ncp,
              twist_cp=[val] * ncp, chord_cp=[val] * ncp, xshear_cp=[val] * ncp, zshear_cp=[val] * ncp)
    if c["fem"] == "tube":
        sd["thickness_cp"] = [0.01 * val] * ncp
        sd["radius_cp"] = [0.1 * val] * ncp
    else:
        sd["spar_thickness_cp"] = [0.004 * val] * ncp
        sd["skin_thickness_cp"] = [0.006 * val] * ncp
    s = zoo.struct_surface(sd)
    p = om.Problem(reports=False)
    p.model.add_subsystem("wing", AerostructGeometry(surface=s))
    with warnings.catch_warnings():
        warnings.simplefilter("ignore")
        p.setup()
        p.run_model()
    exp = dict(twist=val, chord=val, xshear=val, zshear=val, t_over_c=0.1 * val / 2 + 0.05)
    for k, e in exp.items():
        path = "wing.geometry." + k
        o.close("spline/equal_cp_constant", p.get_val(path), e, rtol=1e-12, what="%s with %d equal control points" % (k, ncp))
    if c["fem"] == "tube":
        o.close("spline/equal_cp_constant", p.get_val("wing.thickness"), 0.01 * val, rtol=1e-12, what="thickness")
        o.close("spline/equal_cp_constant", p.get_val("wing.radius"), 0.1 * val, rtol=1e-12, what="radius")
    else:
        o.close("spline/equal_cp_constant", p.get_val("wing.spar_thickness"), 0.004 * val, rtol=1e-12, what="spar_thickness")
        o.close("spline/equal_cp_constant", p.get_val("wing.skin_thickness"), 0.006 * val, rtol=1e-12, what="skin_thickness")
    o.nontrivial = True


def run_shear_var(c, o):
    mesh = M.build(c["mesh"])
    name = ["xshear", "yshear", "zshear"][c["axis"]]
    s = surface_for(dict(c, rap=0.25, rap_key=False), mesh, {name: c["cps"]})
    p = run_geometry(s)
    out = np.array(p.get_val("mesh"))
    dist = np.ravel(p.get_val(name))
    o.close("shear/pure_translation", out, spec_shear(mesh, c["axis"], dist), rtol=1e-12, scale=np.abs(mesh).max(), what="varying %s" % name)
    o.true("shear/distribution_within_cp_range", bool(dist.min() >= min(c["cps"]) - 1e-12 and dist.max() <= max(c["cps"]) + 1e-12),
           "B-spline distribution leaves the convex hull of its control points")
    # (a y shear that folds the planform - stations no longer in spanwise order - leaves "distance from the root" undefined: skipped and counted)
    folded = c["axis"] == 1 and not (np.all(np.diff(out[0, :, 1]) > 0) and np.all(np.diff(out[-1, :, 1]) > 0))
    if folded:
        o.count("yshear_folds_planform_skipped")
    if c["axis"] == 1 and c["mesh"].get("camber", 0.0) == 0.0 and not folded:
        # a varying y shear together with dihedral: z rises linearly with the distance from the root of the mesh that is returned
        # (flat chords only, so that the recorded Rotate finding C13/rotate_x_nonflat_chord does not enter)
        for deg in ([8.0, -5.0, 12.5][len(c["cps"]) % 3], -3.0):
            s2 = surface_for(dict(c, rap=0.25, rap_key=False), mesh, {name: c["cps"], "dihedral": deg})
            out2 = np.array(run_geometry(s2).get_val("mesh"))
            o.close("combo/dihedral_after_varying_yshear", out2, spec_dihedral(out, deg, c["sym"]), rtol=1e-11, scale=np.abs(mesh).max(),
                    what="dihedral %g deg with varying yshear_cp: z must equal tan(dihedral) x |y - y_root| of the returned mesh" % deg, tags=["dihedral", "yshear_var"])
    o.nontrivial = True


def run_hist(c, o):
    mesh = M.build(c["mesh"])
    dflt = defaults_for(mesh, c, c["dvs"])
    s = surface_for(dict(c, rap_key=True), mesh, dflt)
    live = run_geometry(s)
    o.tags = ["hist", "sym" if c["sym"] else "full"] + sorted(c["dvs"])
    scale = np.abs(mesh).max()

    def sets_of(vals):
        out = {}
        for dv in c["dvs"]:
            v = vals.get(dv, dflt[dv])
            key = dv + "_cp" if dv in ("chord", "twist", "xshear", "yshear", "zshear") else dv
            out[key] = np.array(v, float) if isinstance(v, list) else v
        return out

    moved = False
    for j, vals in enumerate(c["steps"]):
        st = sets_of(vals)
        import warnings

        with warnings.catch_warnings():
            warnings.simplefilter("ignore")
            for k_, v_ in st.items():
                live.set_val(k_, v_)
            live.run_model()
        got = np.array(live.get_val("mesh"))
        fresh = np.array(run_geometry(surface_for(dict(c, rap_key=True), mesh, dflt), sets=st).get_val("mesh"))
        o.close("hist/equals_fresh_problem", got, fresh, rtol=1e-12, scale=scale, what="step %d (%s) on the live problem vs a fresh problem at the same values" % (j, sorted(vals) or "defaults"),
                tags=o.tags + ["step=%d" % j, "defaults" if not vals else "moved"])
        if not vals:
            o.close("hist/defaults_restore_input_mesh", got, mesh, rtol=1e-11, scale=scale, what="all variables back at their defaults (step %d)" % j, tags=o.tags + ["step=%d" % j])
        else:
            moved = moved or bool(np.abs(got - mesh).max() > 1e-6)
    o.nontrivial = moved


def run_case(c):
    o = Obs()
    {"default": run_default, "single": run_single, "combo": run_combo, "spline": run_spline, "shear_var": run_shear_var, "hist": run_hist}[c["kind"]](c, o)
    return o
