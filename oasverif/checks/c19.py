"""C19 - composition of surfaces and wrappers does not change the physics."""
import itertools
import warnings

import numpy as np

from ..obs import Obs
from .. import meshes as M
from .. import zoo

LEVEL = "exploration"
RULE = ("cases = (perm) all permutations of 2-3 surface lists of different mesh sizes (full-span, left- and right-half symmetric "
        "surfaces mixed) compared per surface; (split) a full-span surface split at every interior column into two abutting "
        "surfaces; (far) a second surface moved away on a distance ladder up to 1e6 chords; (mphys) DemuxSurfaceMesh -> "
        "AeroSolverGroup -> MuxSurfaceForces + AeroFuncsGroup wired by the harness against the native AeroPoint, 1-4 "
        "surfaces, compressible on/off; (mux) mux/demux permutation, inverse and forward/reverse matrix-free products for "
        "1-4 surfaces.  Non-trivial = non-zero forces and every comparison of the kind evaluated")
ASSUMPTIONS = ["the MPhys groups are wired as openaerostruct/mphys/aero_builder.py wires them, minus the MPI DistributedConverter (not runnable here)"]
REQUIRED_FAMILIES = ["perm/sec_forces", "perm/CL", "perm/M", "split/sec_forces", "split/L_D", "far/decay", "mphys/sec_forces", "mphys/CL_CD_CM",
                     "mux/demux_is_concatenation", "mux/mux_is_concatenation", "mux/inverse", "mux/fwd_equals_rev"]
LEVEL_TEXT = ("real AeroPoint and MPhys wrapper groups are executed on permuted, split, separated and wrapped configurations and "
              "their outputs compared with each other; mux/demux components are checked as exact permutations with adjoint-"
              "consistent products")
TECHNIQUE = "runtime monitoring: metamorphic relations (permutation, splitting, separation ladder, wrapper vs native) + adjoint (fwd/rev) consistency"


def rand_surface(rng, s, kind):
    half = dict(full="full", left="left", right="right")[kind]
    spec = M.random_spec(rng, half=half, nx=int(rng.integers(2, 5)), ny=int(rng.integers(2, 7)), odd_full=False)
    if kind == "full" and rng.random() < 0.6:
        spec["mirror_symmetric"] = False
    spec["offset"] = [float(np.round(s * rng.uniform(3, 8), 3)), 0.0 if kind != "full" else float(np.round(rng.uniform(-1, 1), 3)),
                      float(np.round(s * rng.uniform(0.3, 1.5) * rng.choice([-1, 1]), 3))]
    return dict(name="s%d" % s, symmetry=(kind != "full"), mesh=spec, with_viscous=bool(rng.integers(2)), CL0=float(np.round(rng.uniform(0, 0.1), 3)))


def rand_flow(rng, beta=True):
    return dict(alpha=float(np.round(rng.uniform(-6, 10), 2)), beta=float(np.round(rng.uniform(-8, 8), 2)) if beta else 0.0,
                v=float(rng.uniform(30, 250)), rho=float(rng.uniform(0.3, 1.2)), Mach_number=float(np.round(rng.uniform(0.1, 0.8), 3)),
                re=1e6, cg=[float(x) for x in np.round(rng.uniform(-1, 2, 3), 3)])


def cases(tier, seed):
    rng = np.random.default_rng(19000 + seed)
    out = []
    n = 16 if tier == "quick" else 360
    for k in range(n):
        ns = 2 if k % 2 else 3
        mix = ["full"] * ns if k % 4 == 0 else [str(rng.choice(["full", "left", "right"])) for _ in range(ns)]
        if k % 4 == 1:
            mix[0] = "right"
            mix[1] = "full"
        surfs = [rand_surface(rng, s, mix[s]) for s in range(ns)]
        anysym = any(m != "full" for m in mix)
        out.append(dict(kind="perm", surfaces=surfs, flow=rand_flow(rng, beta=not anysym), compressible=bool(k % 3 == 0), _cost=ns * 3))
    n = 8 if tier == "quick" else 180
    for k in range(n):
        spec = M.random_spec(rng, half="full", nx=int(rng.integers(2, 4)), ny=int(rng.integers(4, 9)), odd_full=False)
        spec["mirror_symmetric"] = bool(k % 2)
        out.append(dict(kind="split", mesh=spec, flow=rand_flow(rng), _cost=spec["ny"]))
    n = 4 if tier == "quick" else 60
    for k in range(n):
        surfs = [rand_surface(rng, 0, "full"), rand_surface(rng, 1, "full")]
        out.append(dict(kind="far", surfaces=surfs, flow=rand_flow(rng), direction=[float(x) for x in rng.normal(size=3)], _cost=6))
    n = 10 if tier == "quick" else 180
    for k in range(n):
        ns = int(rng.choice([1, 2, 3, 4]))
        symc = bool(k % 2)
        surfs = [rand_surface(rng, s, "left" if symc else "full") for s in range(ns)]
        for s in surfs:
            s["with_viscous"] = True
        out.append(dict(kind="mphys", surfaces=surfs, flow=rand_flow(rng, beta=not symc), compressible=bool(k % 3 != 0), _cost=ns * 3))
    n = 12 if tier == "quick" else 180
    for k in range(n):
        ns = int(rng.choice([1, 2, 3, 4]))
        out.append(dict(kind="mux", shapes=[[int(rng.integers(2, 5)), int(rng.integers(2, 7))] for _ in range(ns)], seed=int(rng.integers(1 << 30))))
    return out


def aero_outputs(prob, surfaces):
    out = {}
    for s in surfaces:
        n = s["name"]
        out[n] = dict(F=zoo.get(prob, "aero.aero_states.%s_sec_forces" % n), CL=zoo.get(prob, "aero.%s_perf.CL" % n), CD=zoo.get(prob, "aero.%s_perf.CD" % n),
                      CDi=zoo.get(prob, "aero.%s_perf.CDi" % n), L=zoo.get(prob, "aero.%s_perf.L" % n), D=zoo.get(prob, "aero.%s_perf.D" % n),
                      S=zoo.get(prob, "aero.%s.S_ref" % n))
    tot = dict(CL=zoo.get(prob, "aero.CL"), CD=zoo.get(prob, "aero.CD"), CM=zoo.get(prob, "aero.CM"), M=zoo.get(prob, "aero.total_perf.moment.M"),
               L=zoo.get(prob, "aero.total_perf.L"), D=zoo.get(prob, "aero.total_perf.D"), S=zoo.get(prob, "aero.total_perf.S_ref_total"))
    return out, tot


def mac_of(prob, s):
    n = s["name"]
    ch = np.ravel(zoo.get(prob, "aero.%s.chords" % n))
    w = np.ravel(zoo.get(prob, "aero.%s.widths" % n))
    S = float(np.ravel(zoo.get(prob, "aero.%s.S_ref" % n))[0])
    pc = 0.5 * (ch[1:] + ch[:-1])
    return (pc**2 * w).sum() / S * (2.0 if s["symmetry"] else 1.0)


def run_perm(c, o):
    surfs = c["surfaces"]
    base = None
    kinds = "".join("F" if not s["symmetry"] else ("L" if s["mesh"]["half"] == "left" else "R") for s in surfs)
    for perm in itertools.permutations(range(len(surfs))):
        lst = [surfs[i] for i in perm]
        prob = zoo.build_aero(dict(surfaces=lst, flow=c["flow"], compressible=c["compressible"]), geom=False)
        zoo.run(prob)
        per, tot = aero_outputs(prob, prob._oas_surfaces)
        mac1 = mac_of(prob, prob._oas_surfaces[0])
        tags = ["order=" + "".join(kinds[i] for i in perm), "compressible" if c["compressible"] else "incompressible"]
        if base is None:
            base = (per, tot, mac1)
            continue
        bper, btot, bmac = base
        fs = max(np.abs(v["F"]).max() for v in bper.values())
        for n in per:
            o.close("perm/sec_forces", per[n]["F"], bper[n]["F"], rtol=1e-9, scale=fs, tags=tags, what="forces of %s" % n)
            for q in ("CL", "CD", "CDi", "L", "D"):
                o.close("perm/" + ("CL" if q == "CL" else "surface_" + q), per[n][q], bper[n][q], rtol=1e-9, atol=1e-13, tags=tags)
        for q in ("CL", "CD", "L", "D"):
            o.close("perm/total_" + q, tot[q], btot[q], rtol=1e-9, atol=1e-13, tags=tags)
        o.close("perm/M", tot["M"], btot["M"], rtol=1e-9, scale=np.abs(btot["M"]).max() + fs, tags=tags, what="dimensional moment")
        o.close("perm/CM_times_MAC_first", tot["CM"] * mac1, btot["CM"] * bmac, rtol=1e-9, scale=np.abs(btot["CM"] * bmac).max() + 1e-9, tags=tags)
    o.nontrivial = True


def run_split(c, o):
    mesh = M.build(c["mesh"])
    ny = mesh.shape[1]
    whole = dict(name="w", symmetry=False, mesh=dict(array=mesh.tolist()))
    p0 = zoo.build_aero(dict(surfaces=[whole], flow=c["flow"]), geom=False)
    zoo.run(p0)
    F0 = zoo.get(p0, "aero.aero_states.w_sec_forces")
    L0, D0 = zoo.get(p0, "aero.total_perf.L"), zoo.get(p0, "aero.total_perf.D")
    CL0, CD0 = zoo.get(p0, "aero.CL"), zoo.get(p0, "aero.CD")
    M0 = zoo.get(p0, "aero.total_perf.moment.M")
    for cut in range(1, ny - 1):
        a = dict(name="a", symmetry=False, mesh=dict(array=mesh[:, : cut + 1].tolist()))
        b = dict(name="b", symmetry=False, mesh=dict(array=mesh[:, cut:].tolist()))
        p = zoo.build_aero(dict(surfaces=[a, b], flow=c["flow"]), geom=False)
        zoo.run(p)
        F = np.concatenate([zoo.get(p, "aero.aero_states.a_sec_forces"), zoo.get(p, "aero.aero_states.b_sec_forces")], axis=1)
        tags = ["cut=%d/%d" % (cut, ny)]
        o.close("split/sec_forces", F, F0, rtol=1e-8, tags=tags)
        o.close("split/L_D", [zoo.get(p, "aero.total_perf.L"), zoo.get(p, "aero.total_perf.D")], [L0, D0], rtol=1e-8, scale=abs(float(np.ravel(L0)[0])) + abs(float(np.ravel(D0)[0])), tags=tags)
        o.close("split/CL_CD", [zoo.get(p, "aero.CL"), zoo.get(p, "aero.CD")], [CL0, CD0], rtol=1e-8, atol=1e-12, tags=tags)
        o.close("split/M", zoo.get(p, "aero.total_perf.moment.M"), M0, rtol=1e-8, scale=np.abs(M0).max() + np.abs(F0).max(), tags=tags)
    o.nontrivial = bool(np.abs(F0).max() > 0)


def run_far(c, o):
    s0, s1 = c["surfaces"]
    alone = zoo.build_aero(dict(surfaces=[s0], flow=c["flow"]), geom=False)
    zoo.run(alone)
    F0 = zoo.get(alone, "aero.aero_states.s0_sec_forces")
    d = np.array(c["direction"])
    d /= np.linalg.norm(d)
    chord = s0["mesh"]["root_chord"]
    errs = []
    dists = [1e2, 1e3, 1e4, 1e5, 1e6]
    m1 = M.build(s1["mesh"])
    for dist in dists:
        far = dict(s1, mesh=dict(array=(m1 + d * dist * chord).tolist()))
        p = zoo.build_aero(dict(surfaces=[s0, far], flow=c["flow"]), geom=False)
        zoo.run(p)
        F = zoo.get(p, "aero.aero_states.s0_sec_forces")
        errs.append(float(np.abs(F - F0).max() / np.abs(F0).max()))
    o.info = dict(rel_influence=errs)
    for a, b in zip(errs[:-1], errs[1:]):
        # at 1e5..1e6 chords the coordinates themselves carry 1e-16 * 1e6 = 1e-10 relative round-off
        # (a factor 100 per decade once asymptotic; the first decade, 100 -> 1000 chords, can still be at 10-20)
        o.true("far/decay", b <= a / 10.0 or b < 1e-8, "influence of a far surface does not decay like d^-2: %s" % errs)
    o.true("far/decay", errs[-1] < 1e-8, "influence of a surface 1e6 chords away is still %.2e" % errs[-1])  # (coordinates of size 1e6 chords carry 1e-10 of a chord of round-off)
    o.le("far/limit", errs[-1], 1e-8, slack=0.0, what="influence at 1e6 chords")
    o.nontrivial = errs[0] > 1e-9


def mphys_problem(surfaces, flow, compressible, mode="auto"):
    import openmdao.api as om
    from mphys.core import MPhysVariables as V
    from openaerostruct.mphys.demux_surface_mesh import DemuxSurfaceMesh
    from openaerostruct.mphys.mux_surface_forces import MuxSurfaceForces
    from openaerostruct.mphys.aero_solver_group import AeroSolverGroup
    from openaerostruct.mphys.aero_funcs_group import AeroFuncsGroup

    FC = V.Aerodynamics.FlowConditions
    p = om.Problem(reports=False)
    ivc = om.IndepVarComp()
    x = np.concatenate([s["mesh"].ravel() for s in surfaces])
    ivc.add_output(V.Aerodynamics.Surface.COORDINATES, val=x, units="m")
    ivc.add_output(FC.ANGLE_OF_ATTACK, val=flow["alpha"], units="deg")
    ivc.add_output(FC.YAW_ANGLE, val=flow["beta"], units="deg")
    ivc.add_output(FC.MACH_NUMBER, val=flow["Mach_number"])
    ivc.add_output(FC.REYNOLDS_NUMBER, val=flow["re"], units="1/m")
    ivc.add_output("v", val=flow["v"], units="m/s")
    ivc.add_output("rho", val=flow["rho"], units="kg/m**3")
    ivc.add_output("cg", val=np.array(flow["cg"], float), units="m")
    for s in surfaces:
        ivc.add_output(s["name"] + "_toc", val=np.full(s["mesh"].shape[1] - 1, 0.12))
    p.model.add_subsystem("ivc", ivc, promotes=["*"])
    p.model.add_subsystem("demuxer", DemuxSurfaceMesh(surfaces=surfaces), promotes_inputs=[V.Aerodynamics.Surface.COORDINATES], promotes_outputs=["*_def_mesh"])
    p.model.add_subsystem("states", AeroSolverGroup(surfaces=surfaces, compressible=compressible), promotes_inputs=["*"], promotes_outputs=["*"])
    p.model.add_subsystem("muxer", MuxSurfaceForces(surfaces=surfaces), promotes_inputs=["*_mesh_point_forces"], promotes_outputs=[V.Aerodynamics.Surface.LOADS])
    p.model.add_subsystem("funcs", AeroFuncsGroup(surfaces=surfaces, write_solution=False), promotes_inputs=["*"])
    for s in surfaces:
        p.model.connect(s["name"] + "_toc", s["name"] + ".t_over_c")
    with warnings.catch_warnings():
        warnings.simplefilter("ignore")
        p.setup(mode=mode)
    return p


def run_mphys(c, o):
    nat = zoo.build_aero(dict(surfaces=c["surfaces"], flow=c["flow"], compressible=c["compressible"]), geom=False)
    zoo.run(nat)
    surfaces = nat._oas_surfaces
    flow = dict(zoo.FLOW_DEFAULT)
    flow.update(c["flow"])
    p = mphys_problem(surfaces, flow, c["compressible"])
    zoo.run(p)
    from mphys.core import MPhysVariables as V

    tags = ["nsurf=%d" % len(surfaces), "compressible" if c["compressible"] else "incompressible"]
    fs = max(np.abs(zoo.get(nat, "aero.aero_states.%s_sec_forces" % s["name"])).max() for s in surfaces)
    loads = []
    for s in surfaces:
        n = s["name"]
        o.close("mphys/sec_forces", p.get_val("%s.sec_forces" % n), zoo.get(nat, "aero.aero_states.%s_sec_forces" % n), rtol=1e-9, scale=fs, tags=tags)
        o.close("mphys/surface_CL_CD", [p.get_val("funcs.%s.CL" % n), p.get_val("funcs.%s.CD" % n)],
                [zoo.get(nat, "aero.%s_perf.CL" % n), zoo.get(nat, "aero.%s_perf.CD" % n)], rtol=1e-9, atol=1e-13, tags=tags)
        loads.append(zoo.get(nat, "aero.aero_states.%s_mesh_point_forces" % n).ravel())
    o.close("mphys/CL_CD_CM", np.concatenate([np.ravel(p.get_val("funcs." + q)) for q in ("CL", "CD", "CM")]),
            np.concatenate([np.ravel(zoo.get(nat, "aero." + q)) for q in ("CL", "CD", "CM")]), rtol=1e-9, atol=1e-12, tags=tags)
    o.close("mphys/L_D", [p.get_val("funcs.L"), p.get_val("funcs.D")], [zoo.get(nat, "aero.total_perf.L"), zoo.get(nat, "aero.total_perf.D")], rtol=1e-9, tags=tags)
    o.close("mphys/loads_vector", p.get_val(V.Aerodynamics.Surface.LOADS), np.concatenate(loads), rtol=1e-9, scale=fs, tags=tags,
            what="flattened nodal force vector vs concatenated native mesh_point_forces")
    o.nontrivial = bool(fs > 0)


def run_mux(c, o):
    import openmdao.api as om
    from mphys.core import MPhysVariables as V
    from openaerostruct.mphys.demux_surface_mesh import DemuxSurfaceMesh
    from openaerostruct.mphys.mux_surface_forces import MuxSurfaceForces

    rng = np.random.default_rng(c["seed"])
    surfaces = [dict(name="s%d" % i, mesh=rng.normal(size=(nx, ny, 3))) for i, (nx, ny) in enumerate(c["shapes"])]
    n = sum(s["mesh"].size for s in surfaces)
    x = rng.normal(size=n)
    X, Ld = V.Aerodynamics.Surface.COORDINATES, V.Aerodynamics.Surface.LOADS
    tags = ["nsurf=%d" % len(surfaces)]
    Js = {}
    for mode in ("fwd", "rev"):
        p = om.Problem(reports=False)
        ivc = om.IndepVarComp()
        ivc.add_output(X, val=x, units="m")
        p.model.add_subsystem("ivc", ivc, promotes=["*"])
        p.model.add_subsystem("demux", DemuxSurfaceMesh(surfaces=surfaces), promotes=["*"])
        # forces := meshes (unit conversion aside) so that mux(demux(x)) can be observed
        for s in surfaces:
            p.model.add_subsystem("pass_" + s["name"], om.ExecComp("f = m", f={"shape": s["mesh"].shape, "units": "N"}, m={"shape": s["mesh"].shape, "units": "m"},
                                                                   has_diag_partials=True))
            p.model.connect(s["name"] + "_def_mesh", "pass_%s.m" % s["name"])
            p.model.connect("pass_%s.f" % s["name"], s["name"] + "_mesh_point_forces")
        p.model.add_subsystem("mux", MuxSurfaceForces(surfaces=surfaces), promotes=["*"])
        with warnings.catch_warnings():
            warnings.simplefilter("ignore")
            p.setup(mode=mode)
            p.run_model()
            of = [s["name"] + "_def_mesh" for s in surfaces] + [Ld]
            J = p.compute_totals(of=of, wrt=[X], return_format="array")
        Js[mode] = J
        if mode == "fwd":
            off = 0
            for s in surfaces:
                m = np.array(p.get_val(s["name"] + "_def_mesh"))
                o.close("mux/demux_is_concatenation", m.ravel(), x[off:off + m.size], rtol=0, atol=0, tags=tags, what="demuxed mesh of " + s["name"])
                off += m.size
            o.close("mux/inverse", p.get_val(Ld), x, rtol=0, atol=0, tags=tags, what="mux(demux(x)) == x")
            # mux alone: concatenation of the per-surface force arrays
            q = om.Problem(reports=False)
            iv = om.IndepVarComp()
            fl = []
            for s in surfaces:
                f = rng.normal(size=s["mesh"].shape)
                fl.append(f.ravel())
                iv.add_output(s["name"] + "_mesh_point_forces", val=f, units="N")
            q.model.add_subsystem("iv", iv, promotes=["*"])
            q.model.add_subsystem("mux", MuxSurfaceForces(surfaces=surfaces), promotes=["*"])
            with warnings.catch_warnings():
                warnings.simplefilter("ignore")
                q.setup()
                q.run_model()
            o.close("mux/mux_is_concatenation", q.get_val(Ld), np.concatenate(fl), rtol=0, atol=0, tags=tags)
    # the index helpers the MPhys builder hands to external solvers address the same concatenation: the node indices of each surface
    # pick that surface's nodes out of the flattened coordinate vector
    from openaerostruct.mphys.utils import get_node_indices, get_number_of_nodes

    o.close("mux/node_count", get_number_of_nodes(surfaces), n // 3, rtol=0, atol=0, tags=tags)
    idx = get_node_indices(surfaces)
    xyz = x.reshape(-1, 3)
    off = 0
    for s in surfaces:
        nn = s["mesh"].shape[0] * s["mesh"].shape[1]
        o.close("mux/node_indices", xyz[np.asarray(idx[s["name"]]).ravel() % (n // 3)], xyz[off:off + nn], rtol=0, atol=0, tags=tags, what="nodes addressed by get_node_indices of " + s["name"])
        o.true("mux/node_indices", bool(np.array_equal(np.asarray(idx[s["name"]]).ravel(), np.arange(off, off + nn))), "get_node_indices of %s is not the running range %d..%d" % (s["name"], off, off + nn), tags=tags)
        off += nn
    o.close("mux/fwd_equals_rev", Js["fwd"], Js["rev"], rtol=1e-14, atol=1e-14, tags=tags)
    expect = np.vstack([np.eye(n), np.eye(n)])
    o.close("mux/jacobian_is_permutation", Js["fwd"], expect, rtol=0, atol=1e-14, tags=tags, what="d(demux, mux o demux)/dx must be identity blocks")
    o.nontrivial = True


def run_case(c):
    o = Obs()
    {"perm": run_perm, "split": run_split, "far": run_far, "mphys": run_mphys, "mux": run_mux}[c["kind"]](c, o)
    return o


# ---------------------------------------------------------------------------------------------- suite workload
# second workload source: the repository's own tests run under the monitor plugin (oasverif/plugin.py, oasverif/monitors.py);
# only the monitors that serve this property decide here
_cases_generated = cases
_run_case_generated = run_case


def cases(tier, seed):
    return _cases_generated(tier, seed) + [dict(kind="suite", tier=tier, _cost=200)]


def run_case(c):
    if c["kind"] != "suite":
        return _run_case_generated(c)
    from .. import suite

    o = Obs()
    suite.observe(o, "C19", c.get("tier", "quick"))
    return o
