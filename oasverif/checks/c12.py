"""C12 - the coupled aerostructural state is a consistent, path-independent fixed point."""
import warnings

import numpy as np

from ..obs import Obs
from .. import meshes as M
from .. import zoo, vlmcompare
from ..refs import refframe

LEVEL = "exploration"
RULE = ("cases = seeded random aerostructural configurations (tube and wingbox, symmetric and full span, weight relief, fuel, "
        "point masses, compressible, 1-2 surfaces): (fixed) the converged deformed mesh is fed to a fresh aero-only AeroPoint and "
        "to the reference VLM, the converged aerodynamic loads to a fresh SpatialBeamAlone and to the reference frame solver; "
        "(solvers) NonlinearBlockGS with/without Aitken, Newton(solve_subsystems) x Direct/LinearBlockGS, random initial guesses "
        "of displacements and circulations, arrival from other design points; (multipoint) 2-3 flight points vs single-point "
        "models and isolation under a change of another point's condition; (stiff) E,G x {1,1e2,1e4} against the rigid "
        "aerodynamic analysis.  Non-trivial = converged coupling with non-zero displacement and all comparisons evaluated")
ASSUMPTIONS = ["coupled solver converged to a residual of 1e-10 (err_on_non_converge=True); comparisons through it use 1e-7", "reference VLM / frame solver"]
REQUIRED_FAMILIES = ["fixed/aero_forces_from_def_mesh", "fixed/loads_equivalent_force", "fixed/loads_equivalent_moment", "fixed/refvlm_forces", "fixed/disp_from_loads", "fixed/refframe_disp", "solvers/state", "solvers/outputs",
                     "path/initial_guess", "path/from_other_point", "multipoint/equals_single_point", "multipoint/isolation", "stiff/tends_to_rigid", "shipped/loud_or_converged"]
LEVEL_TEXT = ("converged coupled states of real AerostructPoint models are re-derived through independent compositions (fresh aero-only "
              "and structure-only problems, reference solvers), through every supported solver pairing, from random initial guesses and "
              "other design points, and inside multipoint models")
TECHNIQUE = "runtime monitoring: fixed-point consistency via independent re-composition + differential solver/path/multipoint comparisons"

CASE_TIMEOUT = {"quick": 1200, "thorough": 3000}
R = 1e-7


def gen_surface(rng, fem=None, half=None, name="wing"):
    half = half or ("left" if rng.random() < 0.6 else "full")
    ny = int(rng.integers(3, 6))
    if half == "full":
        ny = ny | 1
    spec = M.random_spec(rng, half=half, nx=int(rng.integers(2, 4)), ny=ny)
    spec.update(root_chord=float(np.round(max(spec["root_chord"], spec["span"] / 9.0), 3)), taper=max(spec["taper"], 0.5), camber=0.0)
    fem = fem or ("tube" if rng.integers(2) else "wingbox")
    s = dict(name=name, symmetry=(half == "left"), mesh=spec, fem_model_type=fem, with_viscous=True, with_wave=bool(rng.integers(2)), t_over_c_cp=[0.12],
             struct_weight_relief=bool(rng.integers(2)), distributed_fuel_weight=bool(fem == "wingbox" and rng.integers(2)), exact_failure_constraint=bool(rng.integers(2)),
             fem_origin=0.35)
    if fem == "tube":
        s["thickness_cp"] = [float(np.round(rng.uniform(0.015, 0.04), 4))]
    else:
        s["spar_thickness_cp"] = [float(np.round(rng.uniform(0.004, 0.01), 4))]
        s["skin_thickness_cp"] = [float(np.round(rng.uniform(0.006, 0.02), 4))]
    return s


def gen_flow(rng):
    return dict(alpha=float(np.round(rng.uniform(0, 6), 2)), v=float(rng.uniform(60, 160)), rho=float(rng.uniform(0.3, 0.8)), Mach_number=float(np.round(rng.uniform(0.4, 0.85), 3)),
                load_factor=float(rng.choice([1.0, 2.5])), W0=float(rng.uniform(500, 5e3)), fuel_mass=float(rng.uniform(500, 3e3)))


def cases(tier, seed):
    rng = np.random.default_rng(12000 + seed)
    out = []
    n = 10 if tier == "quick" else 240
    for k in range(n):
        out.append(dict(kind="fixed", seed=int(rng.integers(1 << 30)), compressible=bool(k % 3 == 0), npm=int(rng.choice([0, 0, 1])), _cost=10))
    n = 6 if tier == "quick" else 120
    for k in range(n):
        out.append(dict(kind="solvers", seed=int(rng.integers(1 << 30)), compressible=bool(k % 3 == 0), _cost=40))
    n = 4 if tier == "quick" else 72
    for k in range(n):
        out.append(dict(kind="multipoint", seed=int(rng.integers(1 << 30)), npts=2 + k % 2, _cost=40))
    n = 4 if tier == "quick" else 36
    for k in range(n):
        out.append(dict(kind="units", seed=int(rng.integers(1 << 30)), _cost=14))
    n = 3 if tier == "quick" else 48
    for k in range(n):
        out.append(dict(kind="stiff", seed=int(rng.integers(1 << 30)), _cost=25))
    # the coupled solver as shipped (AerostructPoint.setup), at its defaults and starved of iterations
    n = 4 if tier == "quick" else 48
    for k in range(n):
        out.append(dict(kind="shipped", seed=int(rng.integers(1 << 30)), _cost=20))
    return out


def state(prob, pt="AS_point_0", names=("wing",)):
    st = {}
    for n in names:
        st[n + ".disp"] = zoo.get(prob, "%s.coupled.%s.disp" % (pt, n))
        st[n + ".def_mesh"] = zoo.get(prob, "%s.coupled.%s.def_mesh" % (pt, n))
        st[n + ".loads"] = zoo.get(prob, "%s.coupled.%s_loads.loads" % (pt, n))
        st[n + ".sec_forces"] = zoo.get(prob, "%s.coupled.aero_states.%s_sec_forces" % (pt, n))
    st["circulations"] = zoo.get(prob, "%s.coupled.aero_states.circulations" % pt)
    return st


def outputs(prob, pt="AS_point_0", names=("wing",)):
    out = {q: zoo.get(prob, "%s.%s" % (pt, q)) for q in ("CL", "CD", "CM", "fuelburn", "L_equals_W", "cg")}
    for n in names:
        out[n + ".failure"] = zoo.get(prob, "%s.%s_perf.failure" % (pt, n))
        out[n + ".vonmises"] = zoo.get(prob, "%s.%s_perf.vonmises" % (pt, n))
    return out


def cmp(o, fam, a, b, tags, rtol=R, what=""):
    for k in a:
        sc = max(np.abs(a[k]).max(), np.abs(b[k]).max())
        if sc == 0:
            continue
        if k.endswith("disp"):
            o.close(fam, a[k][:, :3], b[k][:, :3], rtol=rtol, tags=tags + [k], what="%s %s (translations)" % (what, k))
            o.close(fam, a[k][:, 3:], b[k][:, 3:], rtol=rtol, tags=tags + [k], what="%s %s (rotations)" % (what, k))
        else:
            o.close(fam, a[k], b[k], rtol=rtol, atol=1e-12, tags=tags + [k], what="%s %s" % (what, k))


def run_fixed(c, o):
    rng = np.random.default_rng(c["seed"])
    s = gen_surface(rng)
    flow = gen_flow(rng)
    case = dict(surfaces=[s], flow=flow, compressible=c["compressible"])
    extra = {}
    if c["npm"]:
        s["n_point_masses"] = 1
        b2 = s["mesh"]["span"] / 2
        extra = dict(point_masses=[float(10 ** rng.uniform(1.5, 3))], point_mass_locations=[[0.3, float(-rng.uniform(0.2, 0.8) * b2), 0.1]], engine_thrusts=[float(10 ** rng.uniform(2, 4))])
        case.update(extra)
    prob = zoo.build_as(case)
    zoo.run(prob)
    surf = prob._oas_surfaces[0]
    st = state(prob)
    tags = [s["fem_model_type"], "sym" if s["symmetry"] else "full", "compressible" if c["compressible"] else "incompressible"]
    # ---- the aerodynamic loads are those of the flow about the deformed mesh (fresh aero-only model)
    asurf = {k: v for k, v in s.items() if k not in ("fem_model_type", "struct_weight_relief", "distributed_fuel_weight", "exact_failure_constraint", "fem_origin",
                                                     "thickness_cp", "spar_thickness_cp", "skin_thickness_cp", "n_point_masses")}
    asurf["mesh"] = dict(array=st["wing.def_mesh"].tolist())
    aflow = dict(alpha=flow["alpha"], v=flow["v"], rho=flow["rho"], Mach_number=flow["Mach_number"], beta=0.0)
    A = zoo.build_aero(dict(surfaces=[asurf], flow=aflow, compressible=c["compressible"]), geom=False)
    zoo.run(A)
    o.close("fixed/aero_forces_from_def_mesh", st["wing.sec_forces"], zoo.get(A, "aero.aero_states.wing_sec_forces"), rtol=R, tags=tags,
            what="converged sec_forces vs a fresh AeroPoint on the converged deformed mesh")
    o.close("fixed/aero_CL", zoo.get(prob, "AS_point_0.wing_perf.CL"), zoo.get(A, "aero.wing_perf.CL"), rtol=R, atol=1e-12, tags=tags)
    if not c["compressible"]:
        sA = vlmcompare.oas_states(A, "aero.aero_states", A._oas_surfaces)
        ref = vlmcompare.reference(sA, A._oas_surfaces, dict(zoo.FLOW_DEFAULT, **aflow))
        o.close("fixed/refvlm_forces", st["wing.sec_forces"].reshape(-1, 3), ref["F"], rtol=R, tags=tags, what="converged sec_forces vs the reference VLM on the converged deformed mesh")
    else:
        o._fam("fixed/refvlm_forces", 0.0)
    # ---- the nodal loads handed to the structure are statically equivalent to the converged panel forces: nodal forces placed on
    # the displaced beam axis (nodes + translation; where the structure itself is, whatever the transfer assumes) plus nodal moments
    # have the resultant force and moment of the panel forces acting at the quarter-chord points of the converged deformed mesh
    dm = st["wing.def_mesh"]
    ap = 0.5 * (0.75 * dm[:-1, :-1] + 0.25 * dm[1:, :-1] + 0.75 * dm[:-1, 1:] + 0.25 * dm[1:, 1:])
    sf = st["wing.sec_forces"]
    ax = zoo.get(prob, "wing.nodes") + st["wing.disp"][:, :3]
    ld = st["wing.loads"]
    fs = np.abs(sf).sum() + 1e-300
    span_ = np.ptp(dm[..., 1]) + np.ptp(dm[..., 0])
    for P in (np.zeros(3), dm.reshape(-1, 3).mean(axis=0) + rng.normal(size=3) * span_):
        Fa, Ma = sf.reshape(-1, 3).sum(axis=0), np.cross(ap.reshape(-1, 3) - P, sf.reshape(-1, 3)).sum(axis=0)
        Fs, Ms = ld[:, :3].sum(axis=0), (np.cross(ax - P, ld[:, :3]) + ld[:, 3:]).sum(axis=0)
        o.close("fixed/loads_equivalent_force", Fs, Fa, rtol=1e-10, scale=fs, tags=tags, what="resultant of the nodal loads vs resultant of the panel forces")
        o.close("fixed/loads_equivalent_moment", Ms, Ma, rtol=1e-10, scale=fs * (span_ + np.linalg.norm(P)), tags=tags,
                what="moment of the nodal loads on the displaced beam axis vs moment of the panel forces at their quarter-chord points")
    # ---- the displacements are those produced by these loads (fresh structure-only model)
    scase = dict(surface=s, loads=st["wing.loads"].tolist(), load_factor=flow["load_factor"], fuel_mass=flow["fuel_mass"])
    scase.update(extra)
    S = zoo.build_struct(scase)
    zoo.run(S)
    d2 = zoo.get(S, "disp")
    o.close("fixed/disp_from_loads", st["wing.disp"][:, :3], d2[:, :3], rtol=R, tags=tags, what="converged disp vs a fresh SpatialBeamAlone under the converged loads")
    o.close("fixed/disp_from_loads", st["wing.disp"][:, 3:], d2[:, 3:], rtol=R, tags=tags)
    # reference frame under the same total loads
    tl = zoo.get(prob, "AS_point_0.coupled.wing.struct_states.total_loads")
    nodes = zoo.get(prob, "wing.nodes")
    props = {q: np.ravel(zoo.get(prob, "wing." + q)) for q in ("A", "Iy", "Iz", "J")}
    ny = nodes.shape[0]
    root = ny - 1 if surf["symmetry"] else (ny - 1) // 2
    uref, _K = refframe.solve(nodes, surf["E"], surf["G"], props["A"], props["Iy"], props["Iz"], props["J"], tl, root)
    o.close("fixed/refframe_disp", st["wing.disp"][:, :3], uref[:, :3], rtol=1e-6, tags=tags, what="converged disp vs the reference frame under the converged total loads")
    o.close("fixed/refframe_disp", st["wing.disp"][:, 3:], uref[:, 3:], rtol=1e-6, tags=tags)
    # the deformed mesh is the displaced mesh (first order in the rotations)
    mesh = zoo.get(prob, "wing.mesh")
    first = mesh + st["wing.disp"][None, :, :3] + np.cross(st["wing.disp"][None, :, 3:], mesh - nodes[None])
    th = np.abs(st["wing.disp"][:, 3:]).max()
    o.le("fixed/def_mesh_from_disp", np.abs(st["wing.def_mesh"] - first).max(), 2 * th**2 * np.linalg.norm(mesh - nodes[None], axis=2).max() + 1e-13, slack=0.0)
    o.info = dict(max_disp=float(np.abs(st["wing.disp"][:, :3]).max()))
    o.nontrivial = bool(np.abs(st["wing.disp"]).max() > 1e-8)


def run_solvers(c, o):
    rng = np.random.default_rng(c["seed"])
    two = bool(rng.random() < 0.3)
    s = gen_surface(rng)
    surfs = [s]
    names = ["wing"]
    if two:
        t = gen_surface(rng, half=s["mesh"]["half"], name="tail")
        t["mesh"]["offset"] = [float(s["mesh"]["root_chord"] * 4), 0.0, 0.5]
        t["mesh"]["span"] = float(np.round(s["mesh"]["span"] * 0.4, 3))
        t["mesh"]["root_chord"] = float(np.round(max(t["mesh"]["root_chord"] * 0.6, t["mesh"]["span"] / 9.0), 3))
        t["distributed_fuel_weight"] = False
        surfs.append(t)
        names.append("tail")
    flow = gen_flow(rng)
    base_case = dict(surfaces=surfs, flow=flow, compressible=c["compressible"])
    if c["seed"] % 3 == 0:
        # a steady body rate about a user-given reference point
        base_case["rotational"] = True
        flow["omega"] = [float(x) for x in np.round(rng.uniform(-0.08, 0.08, 3), 4)]
        flow["cg"] = [float(np.round(rng.uniform(0, 1.5), 3)), 0.0, float(np.round(rng.uniform(-0.3, 0.3), 3))]
    npm = 0 if two else int(rng.choice([0, 1, 2]))
    ptA = ptB = {}
    if npm:
        s["n_point_masses"] = npm
        b2 = s["mesh"]["span"] / 2

        def pm(thrust_on):
            return {"point_mass_locations": [[float(rng.uniform(-1, 2)), float(-rng.uniform(0.15, 0.85) * b2), float(rng.uniform(-0.5, 0.5))] for _ in range(npm)],
                    "point_masses": [float(x) for x in 10 ** rng.uniform(1.5, 3, npm)],
                    "engine_thrusts": [float(x) for x in 10 ** rng.uniform(2, 4, npm)] if thrust_on else [0.0] * npm}

        on = bool(rng.integers(2))
        ptA, ptB = pm(on), pm(not on)
        base_case.update(ptA)
    tags = [s["fem_model_type"], "nsurf=%d" % len(surfs), "npm=%d" % npm] + (["rotational"] if base_case.get("rotational") else [])
    variants = [("nlbgs", "direct"), ("nlbgs_noaitken", "direct"), ("newton", "direct"), ("newton", "lbgs"), ("nlbgs", "lbgs")]
    ref_state = ref_out = None
    for nl, lin in variants:
        # Newton stalls at the round-off floor of the mixed-unit residual (about 1e-9) instead of reaching 1e-10
        case = dict(base_case, solver=dict(nl=nl, lin=lin, lin_rtol=1e-12, maxiter=400 if nl != "newton" else 60, atol=1e-10 if nl != "newton" else 2e-8))
        p = zoo.build_as(case)
        from openmdao.api import AnalysisError

        try:
            zoo.run(p)
        except AnalysisError as e:
            o.info.setdefault("not_converged", []).append("%s/%s: %s" % (nl, lin, str(e)[:80]))
            continue
        st, out = state(p, names=names), outputs(p, names=names)
        o.count("converged_%s_%s" % (nl, lin))
        if ref_state is None:
            ref_state, ref_out, ref_p = st, out, p
            continue
        cmp(o, "solvers/state", st, ref_state, tags + ["nl=" + nl, "lin=" + lin], what="%s/%s vs nlbgs/direct" % (nl, lin))
        cmp(o, "solvers/outputs", out, ref_out, tags + ["nl=" + nl, "lin=" + lin], what="%s/%s vs nlbgs/direct" % (nl, lin))
    if ref_state is None:
        o.unsure("default solver pairing did not converge")
        return
    # ---- random initial guesses on the default pairing
    p = ref_p
    for trial in range(2):
        for n in names:
            d = zoo.get(p, "AS_point_0.coupled.%s.disp" % n)
            p.set_val("AS_point_0.coupled.%s.disp" % n, d + rng.normal(size=d.shape) * np.abs(d).max() * 3)
        g = zoo.get(p, "AS_point_0.coupled.aero_states.circulations")
        p.set_val("AS_point_0.coupled.aero_states.circulations", g * rng.uniform(-2, 3, g.shape))
        zoo.run(p)
        cmp(o, "path/initial_guess", state(p, names=names), ref_state, tags, what="restart from a random state")
    # ... and from a state in which EVERY output of the coupled group (states and intermediate quantities alike, e.g. a state vector
    # restored from another case) has been overwritten
    import openmdao.api as om_
    from openmdao.core.component import Component as _Component

    cp = p.model.AS_point_0.coupled
    nover = 0
    for comp in cp.system_iter(recurse=True, typ=_Component):
        if isinstance(comp, om_.IndepVarComp):
            continue  # constants of the model (e.g. the zero angles of the Prandtl-Glauert frame), not computed quantities
        for name in comp._var_abs2meta["output"]:
            val = np.array(p.get_val(name))
            sc = float(np.abs(val).max()) or 1.0
            p.set_val(name, val * rng.uniform(-1, 2, val.shape) + rng.normal(size=val.shape) * 0.3 * sc)
            nover += 1
    o.count("outputs_of_the_coupled_group_overwritten", nover)
    try:
        zoo.run(p)
        cmp(o, "path/initial_guess", state(p, names=names), ref_state, tags + ["all_outputs_overwritten"], what="restart with every output of the coupled group overwritten")
        cmp(o, "path/initial_guess", outputs(p, names=names), ref_out, tags + ["all_outputs_overwritten"], what="restart with every output of the coupled group overwritten")
    except zoo.NotConvergent:
        # block Gauss-Seidel need not converge from an arbitrary state; the comparison is made only where it does
        o.count("restarts_from_overwritten_state_not_convergent")
        p = zoo.build_as(dict(base_case, solver=dict(nl="nlbgs", lin="direct", lin_rtol=1e-12, maxiter=400, atol=1e-10)))
        zoo.run(p)
    # ---- arrival from other design points: A -> B (vs a fresh problem at B) -> A (vs the fresh problem at A)
    flowB = dict(flow, alpha=flow["alpha"] + float(rng.uniform(-3, 5)), v=flow["v"] * float(rng.uniform(0.7, 1.2)))
    caseB = dict(base_case, flow=flowB)
    caseB.update(ptB)
    pB = zoo.build_as(caseB)
    zoo.run(pB)
    stB, outB = state(pB, names=names), outputs(pB, names=names)
    for trial in range(2):
        p.set_val("alpha_0", flowB["alpha"])
        p.set_val("v_0", flowB["v"])
        for k_, v_ in ptB.items():
            p.set_val(k_, np.array(v_, float))
        zoo.run(p)
        cmp(o, "path/from_other_point", state(p, names=names), stB, tags, what="design point B reached from A vs a fresh problem at B")
        cmp(o, "path/from_other_point", outputs(p, names=names), outB, tags, what="design point B reached from A vs a fresh problem at B")
        p.set_val("alpha_0", flow["alpha"])
        p.set_val("v_0", flow["v"])
        for k_, v_ in ptA.items():
            p.set_val(k_, np.array(v_, float))
        zoo.run(p)
        cmp(o, "path/from_other_point", state(p, names=names), ref_state, tags, what="design point A revisited after B")
        cmp(o, "path/from_other_point", outputs(p, names=names), ref_out, tags, what="design point A revisited after B")
    o.nontrivial = bool(np.abs(ref_state["wing.disp"]).max() > 1e-8)


def run_multipoint(c, o):
    rng = np.random.default_rng(c["seed"])
    s = gen_surface(rng)
    npts = c["npts"]
    flows = [gen_flow(rng) for _ in range(npts)]
    for f in flows[1:]:
        for k in ("W0", "fuel_mass"):
            f[k] = flows[0][k]  # shared inputs
    mp = zoo.build_as(dict(surfaces=[s], flows=flows), setup=False)
    # the multipoint objective component of the repository's multipoint examples
    from openaerostruct.integration.multipoint_comps import MultiCD
    import warnings as _w

    mp.model.add_subsystem("multi_CD", MultiCD(n_points=npts), promotes_outputs=[("CD", "CD_sum")])
    for i in range(npts):
        mp.model.connect("AS_point_%d.CD" % i, "multi_CD.%d_CD" % i)
    with _w.catch_warnings():
        _w.simplefilter("ignore")
        mp.setup()
    zoo.configure_solvers(mp, {}, npts)
    zoo.run(mp)
    tags = [s["fem_model_type"], "npts=%d" % npts]
    o.close("multipoint/multi_CD_is_sum", mp.get_val("CD_sum"), sum(float(np.ravel(mp.get_val("AS_point_%d.CD" % i))[0]) for i in range(npts)), rtol=1e-13, tags=tags)
    singles = []
    for i, f in enumerate(flows):
        sp = zoo.build_as(dict(surfaces=[s], flow=f))
        zoo.run(sp)
        singles.append((state(sp), outputs(sp)))
        cmp(o, "multipoint/equals_single_point", state(mp, pt="AS_point_%d" % i), singles[i][0], tags + ["point=%d" % i], what="point %d of a %d-point model vs the single-point model" % (i, npts))
        cmp(o, "multipoint/equals_single_point", outputs(mp, pt="AS_point_%d" % i), singles[i][1], tags + ["point=%d" % i])
    # change only point j: every other point must not move at all
    j = int(rng.integers(npts))
    before = [(state(mp, pt="AS_point_%d" % i), outputs(mp, pt="AS_point_%d" % i)) for i in range(npts)]
    mp.set_val("alpha_%d" % j, flows[j]["alpha"] + 2.5)
    mp.set_val("v_%d" % j, flows[j]["v"] * 1.2)
    mp.set_val("load_factor_%d" % j, 1.7)
    zoo.run(mp)
    for i in range(npts):
        if i == j:
            moved = np.abs(state(mp, pt="AS_point_%d" % i)["wing.disp"] - before[i][0]["wing.disp"]).max()
            o.true("multipoint/changed_point_moves", moved > 0, "the changed point did not react")
            continue
        cmp(o, "multipoint/isolation", state(mp, pt="AS_point_%d" % i), before[i][0], tags + ["changed=%d" % j, "observed=%d" % i], rtol=1e-9, what="point %d after changing only point %d" % (i, j))
        cmp(o, "multipoint/isolation", outputs(mp, pt="AS_point_%d" % i), before[i][1], tags + ["changed=%d" % j, "observed=%d" % i], rtol=1e-9)
    o.nontrivial = True


def run_stiff(c, o):
    rng = np.random.default_rng(c["seed"])
    s = gen_surface(rng, fem="tube" if c["seed"] % 2 else "wingbox")
    s["struct_weight_relief"] = False
    s["distributed_fuel_weight"] = False
    flow = gen_flow(rng)
    asurf = {k: v for k, v in s.items() if k not in ("fem_model_type", "struct_weight_relief", "distributed_fuel_weight", "exact_failure_constraint", "fem_origin",
                                                     "thickness_cp", "spar_thickness_cp", "skin_thickness_cp")}
    A = zoo.build_aero(dict(surfaces=[asurf], flow=dict(alpha=flow["alpha"], v=flow["v"], rho=flow["rho"], Mach_number=flow["Mach_number"], beta=0.0)), geom=True)
    zoo.run(A)
    cl_r = float(np.ravel(zoo.get(A, "aero.wing_perf.CL"))[0])
    Fr = zoo.get(A, "aero.aero_states.wing_sec_forces")
    base = zoo.struct_surface(s)
    devs = []
    for mult in (1.0, 1e2, 1e4):
        s2 = dict(s, E=base["E"] * mult, G=base["G"] * mult)
        p = zoo.build_as(dict(surfaces=[s2], flow=flow))
        zoo.run(p)
        devs.append((abs(float(np.ravel(zoo.get(p, "AS_point_0.wing_perf.CL"))[0]) - cl_r),
                     float(np.abs(zoo.get(p, "AS_point_0.coupled.aero_states.wing_sec_forces") - Fr).max() / np.abs(Fr).max())))
    o.info = dict(deviation_from_rigid=devs)
    f = [d[1] for d in devs]
    o.true("stiff/tends_to_rigid", f[1] < f[0] / 30 and f[2] < max(f[1] / 30, 1e-10), "deviation from the rigid analysis does not fall like 1/E: %s" % f, tags=[s["fem_model_type"]])
    o.le("stiff/limit", f[2], 1e-3 * max(f[0], 1e-12) + 1e-9, slack=0.0, what="deviation at 1e4 x stiffness")
    o.nontrivial = bool(f[0] > 1e-8)


def run_shipped(c, o):
    """What run_model hands back through the solver set-up the repository ships is a fixed point - or the run fails loudly."""
    from openmdao.api import AnalysisError

    rng = np.random.default_rng(c["seed"])
    s = gen_surface(rng)
    flow = gen_flow(rng)
    base_case = dict(surfaces=[s], flow=flow)
    ref = zoo.build_as(dict(base_case, solver=dict(nl="nlbgs", lin="direct", maxiter=400, atol=1e-10)))
    zoo.run(ref)
    st_ref = state(ref)
    tags = [s["fem_model_type"]]
    keys = ("wing.disp", "wing.loads", "wing.sec_forces", "wing.def_mesh")

    def dev(p):
        st = state(p)
        return max(float(np.abs(st[k] - st_ref[k]).max() / max(np.abs(st_ref[k]).max(), 1e-300)) for k in keys if k in st_ref)

    # (1) shipped defaults
    p = zoo.build_as(dict(base_case, solver=dict(nl="shipped")))
    try:
        with warnings.catch_warnings():
            warnings.simplefilter("ignore")
            p.run_model()
        o.le("shipped/default_state_is_fixed_point", dev(p), 1e-5, what="state returned by the shipped coupled solver vs the tightly converged state", tags=tags)
    except AnalysisError:
        o.count("shipped_default_raised")
    # (2) iteration budgets too small to converge: a loud failure or a converged state, never a silent intermediate iterate
    for maxiter, aitken in ((2, True), (3, False), (1, False)):
        p = zoo.build_as(dict(base_case, solver=dict(nl="shipped", maxiter=maxiter, use_aitken=aitken)))
        raised = False
        try:
            with warnings.catch_warnings():
                warnings.simplefilter("ignore")
                p.run_model()
        except AnalysisError:
            raised = True
        o.count("shipped_starved_runs")
        if raised:
            o.count("shipped_starved_raised")
            o.true("shipped/loud_or_converged", True)
        else:
            d = dev(p)
            o.true("shipped/loud_or_converged", d <= 1e-5, "run_model returned normally after %d coupled iteration(s) (use_aitken=%s) with a state that is not the "
                   "fixed point: relative deviation %.3e from the converged state" % (maxiter, aitken, d), tags=tags, deviation=d)
    o.nontrivial = True


def run_units(c, o):
    """the same physical inputs supplied through sources declared in other units must give the same coupled state"""
    rng = np.random.default_rng(c["seed"])
    s = gen_surface(rng)
    flow = gen_flow(rng)
    case = dict(surfaces=[s], flow=flow)
    npm = int(rng.choice([0, 1, 2]))
    if npm:
        s["n_point_masses"] = npm
        b2 = s["mesh"]["span"] / 2
        case.update(point_masses=[float(x) for x in 10 ** rng.uniform(1.5, 3, npm)],
                    point_mass_locations=[[float(rng.uniform(-1, 2)), float(-rng.uniform(0.15, 0.85) * b2), float(rng.uniform(-0.5, 0.5))] for _ in range(npm)],
                    engine_thrusts=[float(x) for x in 10 ** rng.uniform(2, 4, npm)])
    p0 = zoo.build_as(case)
    zoo.run(p0)
    un = dict(W0="lbm", R="NM", CT="1/h", speed_of_sound="ft/s", v="knot", alpha="rad", rho="slug/ft**3", point_masses="lbm", point_mass_locations="ft",
              engine_thrusts="lbf", empty_cg="ft", fuel_mass="lbm", re="1/ft")
    p1 = zoo.build_as(dict(case, units=un))
    zoo.run(p1)
    tags = [s["fem_model_type"], "npm=%d" % npm, "other_units"]
    cmp(o, "units/state", state(p1), state(p0), tags, rtol=1e-7, what="inputs supplied in lbm/NM/knot/rad/ft/lbf")
    cmp(o, "units/outputs", outputs(p1), outputs(p0), tags, rtol=1e-7, what="inputs supplied in lbm/NM/knot/rad/ft/lbf")
    o.nontrivial = True


def run_case(c):
    o = Obs()
    {"fixed": run_fixed, "solvers": run_solvers, "multipoint": run_multipoint, "stiff": run_stiff, "units": run_units, "shipped": run_shipped}[c["kind"]](c, o)
    return o
