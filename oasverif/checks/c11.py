"""C11 - load and displacement transfer conserve force and moment; rigid motion is exact."""
import warnings

import numpy as np

from ..obs import Obs
from .. import meshes as M
from .. import zoo

LEVEL = "exploration"
RULE = ("cases = (load) the real LoadTransfer + ComputeNodes components on random deformed meshes (harness meshes with "
        "random nodal perturbations), random sectional force fields, spar locations in [0,1] including exactly 0 and 1, "
        "tube and wingbox; (mpf) mesh-node forces of real AeroPoint runs (1-3 surfaces of different size, compressible "
        "on/off, sideslip) against the sectional forces; (disp) DisplacementTransferGroup with zero / pure-translation / "
        "small-rotation ladders; (coupled) converged aerostructural points.  Totals are compared as force and as moment "
        "about three random points.  Non-trivial = non-zero forces/displacements and all families of the kind evaluated")
ASSUMPTIONS = ["statics: resultant force and moment of a force system", "numpy"]
REQUIRED_FAMILIES = ["load/total_force", "load/total_moment", "mpf/total_force", "mpf/total_moment", "disp/zero_is_identity",
                     "disp/translation_exact", "disp/rotation_first_order", "coupled/load/total_moment", "coupled2/load/total_moment",
                     "mpf_sweep/total_force", "mpf_sweep/zero_forces_give_zero_node_forces"]
LEVEL_TEXT = ("the real transfer components are executed on generated deformed meshes, force fields, spar positions and "
              "displacement fields, and in converged coupled analyses; total force and total moment about random points are "
              "compared with first principles on every execution, rigid-motion identities with exact expectations")
TECHNIQUE = "runtime monitoring: conservation oracles (resultant force/moment about random points) + exact rigid-motion identities + O(theta^2) ladder"


def cases(tier, seed):
    rng = np.random.default_rng(11000 + seed)
    out = []
    n = 80 if tier == "quick" else 2400
    for k in range(n):
        half = str(rng.choice(["left", "right", "full"]))
        spec = M.random_spec(rng, half=half, nx=int(rng.integers(2, 6)), ny=int(rng.integers(2, 10)), odd_full=False)
        fo = float(np.round(rng.random(), 3))
        if k % 8 == 0:
            fo = 0.0
        if k % 8 == 1:
            fo = 1.0
        out.append(dict(kind="load", mesh=spec, fem="tube" if k % 3 else "wingbox", fem_origin=fo, seed=int(rng.integers(1 << 30))))
    n = 20 if tier == "quick" else 480
    for k in range(n):
        nsurf = int(rng.choice([1, 2, 3]))
        surfs = []
        symc = bool(k % 3 == 0)
        for s in range(nsurf):
            half = str(rng.choice(["left", "right"])) if symc else "full"
            spec = M.random_spec(rng, half=half, nx=int(rng.integers(2, 5)), ny=int(rng.integers(2, 8)), odd_full=False)
            spec["offset"] = [float(np.round(s * rng.uniform(3, 8), 3)), 0.0, float(np.round(s * rng.uniform(0.3, 1.5), 3))]
            surfs.append(dict(name="s%d" % s, symmetry=symc, mesh=spec))
        out.append(dict(kind="mpf", surfaces=surfs, compressible=bool(k % 2),
                        flow=dict(alpha=float(np.round(rng.uniform(-10, 12), 2)), beta=0.0 if symc else float(np.round(rng.uniform(-10, 10), 2)),
                                  v=float(rng.uniform(30, 250)), rho=float(rng.uniform(0.3, 1.2)), Mach_number=float(np.round(rng.uniform(0.1, 0.85), 3))), _cost=3))
    n = 40 if tier == "quick" else 900
    for k in range(n):
        half = str(rng.choice(["left", "full"]))
        spec = M.random_spec(rng, half=half, nx=int(rng.integers(2, 6)), ny=int(rng.integers(2, 10)), odd_full=False)
        out.append(dict(kind="disp", mesh=spec, fem="tube" if k % 3 else "wingbox", fem_origin=float(np.round(rng.random(), 3)) if k % 6 else 0.0,
                        seed=int(rng.integers(1 << 30))))
    n = 6 if tier == "quick" else 120
    for k in range(n):
        half = "left" if k % 3 else "full"
        spec = zoo.sane_wing(M.random_spec(rng, half=half, nx=int(rng.integers(2, 4)), ny=int(rng.integers(3, 8))))
        spec["camber"] = 0.0
        out.append(dict(kind="coupled", surfaces=[dict(name="wing", symmetry=(half == "left"), mesh=spec, fem_model_type="tube" if k % 2 else "wingbox",
                                                       fem_origin=float(np.round(rng.uniform(0.1, 0.7), 3)))],
                        flow=dict(alpha=float(np.round(rng.uniform(1, 8), 2)), v=float(rng.uniform(50, 160)), rho=float(rng.uniform(0.3, 0.8))), _cost=6))
    # two surfaces in one coupled point, each with its own spar location (same and different mesh shapes)
    n = 4 if tier == "quick" else 24
    for k in range(n):
        half = "left" if k % 2 else "full"
        spec = zoo.sane_wing(M.random_spec(rng, half=half, nx=int(rng.integers(2, 4)), ny=int(rng.integers(3, 6))))
        spec["camber"] = 0.0
        tspec = dict(spec, span=float(np.round(spec["span"] * 0.5, 3)), root_chord=float(np.round(spec["root_chord"] * 0.7, 3)), offset=[float(spec["root_chord"] * 4), 0.0, 0.4])
        if k % 4 >= 2:
            tspec["ny"] = max(3, spec["ny"] - (2 if half == "full" else 1))
        fo = [float(np.round(rng.uniform(0.1, 0.4), 3)), float(np.round(rng.uniform(0.5, 0.8), 3))]
        out.append(dict(kind="coupled2", surfaces=[dict(name="wing", symmetry=(half == "left"), mesh=spec, fem_model_type="tube", fem_origin=fo[0], thickness_cp=[0.03]),
                                                   dict(name="tail", symmetry=(half == "left"), mesh=tspec, fem_model_type="tube", fem_origin=fo[1], thickness_cp=[0.02])],
                        flow=dict(alpha=float(np.round(rng.uniform(1, 6), 2)), v=float(rng.uniform(50, 120)), rho=float(rng.uniform(0.3, 0.8))), _cost=10))
    # a sweep of one live aero problem through a condition with exactly zero panel forces (flat untwisted wing at alpha = 0)
    n = 4 if tier == "quick" else 20
    for k in range(n):
        half = ["left", "right", "full"][k % 3]
        out.append(dict(kind="mpf_sweep", mesh=dict(nx=int(rng.integers(2, 4)), ny=int(rng.integers(3, 7)) | (1 if half == "full" else 0), half=half,
                                                    span=float(np.round(rng.uniform(6, 14), 2)), root_chord=float(np.round(rng.uniform(0.8, 2), 2)),
                                                    sweep_deg=float(np.round(rng.uniform(0, 25), 1))), compressible=bool(k % 2),
                        alphas=[4.0, 2.0, 0.0, -2.0, 0.0, 3.0], _cost=4))
    return out


# ---------------------------------------------------------------------------------------------- helpers
def quarter_chord_pts(mesh):
    q = 0.75 * mesh[:-1] + 0.25 * mesh[1:]  # (nx-1, ny, 3) panel-edge quarter chords
    return 0.5 * (q[:, :-1] + q[:, 1:])  # (nx-1, ny-1, 3)


def resultant(points, forces, about, moments=None):
    F = forces.reshape(-1, 3).sum(axis=0)
    Mo = np.cross(points.reshape(-1, 3) - about, forces.reshape(-1, 3)).sum(axis=0)
    if moments is not None:
        Mo = Mo + moments.reshape(-1, 3).sum(axis=0)
    return F, Mo


def surf_for(mesh, fem, fem_origin):
    s = dict(name="wing", symmetry=False, mesh=mesh, fem_model_type=fem)
    if fem == "tube":
        s["fem_origin"] = fem_origin
    else:
        for k, v in zoo.WINGBOX_AIRFOIL.items():
            s[k] = v.copy()
    return s


def conservation(o, fam, rng, mesh, sec_forces, pts_loads, F_loads, M_loads, tags=()):
    a = quarter_chord_pts(mesh)
    span = max(np.ptp(mesh[:, :, 1]), np.ptp(mesh[:, :, 0]))
    fs = np.abs(sec_forces).sum()
    for k in range(3):
        P = mesh.reshape(-1, 3).mean(axis=0) + rng.normal(size=3) * span * (0.0 if k == 0 else 1.0)
        F0, M0 = resultant(a, sec_forces, P)
        F1, M1 = resultant(pts_loads, F_loads, P, M_loads)
        o.close(fam + "/total_force", F1, F0, rtol=1e-11, scale=fs, tags=tags)
        o.close(fam + "/total_moment", M1, M0, rtol=1e-11, scale=fs * span * 3, tags=tags)


def run_load(c, o):
    import openmdao.api as om
    from openaerostruct.transfer.load_transfer import LoadTransfer
    from openaerostruct.structures.compute_nodes import ComputeNodes

    rng = np.random.default_rng(c["seed"])
    mesh0 = M.build(c["mesh"])
    nx, ny, _ = mesh0.shape
    chord = c["mesh"]["root_chord"]
    mesh = mesh0 + rng.normal(0, 0.03 * chord, mesh0.shape)  # a deformed mesh
    surf = surf_for(mesh0, c["fem"], c["fem_origin"])
    p = om.Problem(reports=False)
    ivc = om.IndepVarComp()
    ivc.add_output("def_mesh", val=mesh, units="m")
    ivc.add_output("sec_forces", val=rng.normal(size=(nx - 1, ny - 1, 3)) * 10 ** rng.uniform(0, 5), units="N")
    p.model.add_subsystem("ivc", ivc, promotes=["*"])
    p.model.add_subsystem("lt", LoadTransfer(surface=surf), promotes=["*"])
    p.model.add_subsystem("nodes", ComputeNodes(surface=surf), promotes_outputs=["nodes"])
    p.model.connect("def_mesh", "nodes.mesh")
    with warnings.catch_warnings():
        warnings.simplefilter("ignore")
        p.setup()
        p.run_model()
    loads = np.array(p.get_val("loads"))
    nodes = np.array(p.get_val("nodes"))
    sf = np.array(p.get_val("sec_forces"))
    tags = [c["fem"], "fem_origin=%g" % c["fem_origin"] if c["fem"] == "tube" else "wingbox_origin"]
    o.true("load/shape", loads.shape == (ny, 6), "loads shape")
    conservation(o, "load", rng, mesh, sf, nodes, loads[:, :3], loads[:, 3:], tags=tags)
    if c["fem"] == "tube":
        fo = c["fem_origin"]
        o.close("load/nodes_on_spar_line", nodes, (1 - fo) * mesh[0] + fo * mesh[-1], rtol=1e-13, tags=tags)
    else:
        # the wingbox spar line lies between the leading and trailing edge
        t = np.einsum("ij,ij->i", nodes - mesh[0], mesh[-1] - mesh[0]) / np.einsum("ij,ij->i", mesh[-1] - mesh[0], mesh[-1] - mesh[0])
        o.true("load/wingbox_nodes_within_chord", bool(np.all((t > 0) & (t < 1)) and np.ptp(t) < 1e-12), "wingbox node line not a fixed chord fraction in (0,1)")
    # each half panel force goes to the adjacent nodes: nodal force = half the sum of adjacent strips
    strip = sf.sum(axis=0)
    exp = np.zeros((ny, 3))
    exp[:-1] += 0.5 * strip
    exp[1:] += 0.5 * strip
    o.close("load/half_to_each_adjacent_node", loads[:, :3], exp, rtol=1e-12, tags=tags)
    o.nontrivial = True


def run_mpf(c, o):
    prob = zoo.build_aero(dict(surfaces=c["surfaces"], flow=c["flow"], compressible=c["compressible"]), geom=False)
    zoo.run(prob)
    rng = np.random.default_rng(7)
    tags = ["compressible" if c["compressible"] else "incompressible", "nsurf=%d" % len(c["surfaces"])]
    for s in prob._oas_surfaces:
        n = s["name"]
        sf = zoo.get(prob, "aero.aero_states.%s_sec_forces" % n)
        mpf = zoo.get(prob, "aero.aero_states.%s_mesh_point_forces" % n)
        mesh = s["mesh"]
        o.true("mpf/shape", mpf.shape == mesh.shape, "mesh_point_forces shape %s vs mesh %s" % (mpf.shape, mesh.shape), tags=tags)
        conservation(o, "mpf", rng, mesh, sf, mesh, mpf, None, tags=tags)
    o.nontrivial = True


def run_disp(c, o):
    import openmdao.api as om
    from openaerostruct.transfer.displacement_transfer_group import DisplacementTransferGroup
    from openaerostruct.structures.compute_nodes import ComputeNodes

    rng = np.random.default_rng(c["seed"])
    mesh = M.build(c["mesh"])
    nx, ny, _ = mesh.shape
    surf = surf_for(mesh, c["fem"], c["fem_origin"])
    p = om.Problem(reports=False)
    ivc = om.IndepVarComp()
    ivc.add_output("mesh", val=mesh, units="m")
    ivc.add_output("disp", val=np.zeros((ny, 6)), units="m")
    p.model.add_subsystem("ivc", ivc, promotes=["*"])
    p.model.add_subsystem("cn", ComputeNodes(surface=surf), promotes=["*"])
    p.model.add_subsystem("dt", DisplacementTransferGroup(surface=surf), promotes=["*"])
    with warnings.catch_warnings():
        warnings.simplefilter("ignore")
        p.setup()

    def dm(disp):
        p.set_val("disp", disp)
        zoo.run(p)
        return np.array(p.get_val("def_mesh")).copy()

    nodes_scale = np.abs(mesh).max()
    d0 = dm(np.zeros((ny, 6)))
    o.close("disp/zero_is_identity", d0, mesh, rtol=0, atol=0, what="zero displacement must leave the mesh unchanged")
    nodes = np.array(p.get_val("nodes"))
    t = rng.normal(size=3) * c["mesh"]["span"]
    d1 = dm(np.hstack([np.tile(t, (ny, 1)), np.zeros((ny, 3))]))
    o.close("disp/translation_exact", d1, mesh + t, rtol=4e-16, scale=nodes_scale + np.abs(t).max())
    # per-node translations translate each chordwise section
    tn = rng.normal(size=(ny, 3))
    d2 = dm(np.hstack([tn, np.zeros((ny, 3))]))
    o.close("disp/translation_exact", d2, mesh + tn[None, :, :], rtol=4e-16, scale=nodes_scale + np.abs(tn).max())
    # small rotations: def_mesh = mesh + theta x (mesh - node) + O(theta^2)
    axis = rng.normal(size=(ny, 3))
    axis /= np.linalg.norm(axis, axis=1)[:, None]
    arm = mesh - nodes[None, :, :]
    armn = np.linalg.norm(arm, axis=2).max()
    errs = []
    ths = [1e-2, 1e-3, 1e-4, 1e-5]
    for th in ths:
        rot = axis * th
        d = dm(np.hstack([np.zeros((ny, 3)), rot]))
        first = mesh + np.cross(rot[None, :, :], arm)
        errs.append(float(np.abs(d - first).max()))
        o.le("disp/rotation_first_order", errs[-1], 2.0 * th**2 * armn + 1e-15 * nodes_scale, slack=0.0,
             what="deviation %.3e from rigid first-order rotation at theta=%g exceeds 2 theta^2 |arm|" % (errs[-1], th))
    o.info = dict(rotation_errors=errs)
    if errs[0] > 1e-12:
        o.true("disp/rotation_second_order_decay", errs[1] <= errs[0] / 50.0 and errs[2] <= max(errs[1] / 50.0, 1e-15 * nodes_scale),
               "error of the first-order rotation does not decay like theta^2: %s" % errs)
    # rotation about the node itself leaves the node line fixed: points at the spar location do not move
    o.nontrivial = True


def run_coupled(c, o):
    import openmdao.api as om
    from openaerostruct.structures.compute_nodes import ComputeNodes

    prob = zoo.build_as(dict(surfaces=c["surfaces"], flow=c["flow"]))
    zoo.run(prob)
    s = prob._oas_surfaces[0]
    rng = np.random.default_rng(3)
    def_mesh = zoo.get(prob, "AS_point_0.coupled.wing.def_mesh")
    sf = zoo.get(prob, "AS_point_0.coupled.aero_states.wing_sec_forces")
    loads = zoo.get(prob, "AS_point_0.coupled.wing_loads.loads")
    mpf = zoo.get(prob, "AS_point_0.coupled.aero_states.wing_mesh_point_forces")
    # spar points of the deformed mesh from the real ComputeNodes
    q = om.Problem(reports=False)
    ivc = om.IndepVarComp()
    ivc.add_output("mesh", val=def_mesh, units="m")
    q.model.add_subsystem("ivc", ivc, promotes=["*"])
    q.model.add_subsystem("cn", ComputeNodes(surface=s), promotes=["*"])
    with warnings.catch_warnings():
        warnings.simplefilter("ignore")
        q.setup()
        q.run_model()
    spts = np.array(q.get_val("nodes"))
    tags = [s["fem_model_type"], "sym" if s["symmetry"] else "full"]
    conservation(o, "coupled/load", rng, def_mesh, sf, spts, loads[:, :3], loads[:, 3:], tags=tags)
    conservation(o, "coupled/mpf", rng, def_mesh, sf, def_mesh, mpf, None, tags=tags)
    # displacement transfer at the converged state: zero-rotation part is a pure section translation
    mesh = zoo.get(prob, "wing.mesh")
    disp = zoo.get(prob, "AS_point_0.coupled.wing.disp")
    nodes = zoo.get(prob, "wing.nodes")
    first = mesh + disp[None, :, :3] + np.cross(disp[None, :, 3:], mesh - nodes[None, :, :])
    th = np.abs(disp[:, 3:]).max()
    arm = np.linalg.norm(mesh - nodes[None], axis=2).max()
    o.le("coupled/def_mesh_first_order", np.abs(def_mesh - first).max(), 2 * th**2 * arm + 1e-14, slack=0.0)
    o.nontrivial = bool(np.abs(disp).max() > 0)


def run_coupled2(c, o):
    """every surface of a multi-surface coupled point transfers its loads about its own spar line"""
    import openmdao.api as om
    from openaerostruct.structures.compute_nodes import ComputeNodes

    prob = zoo.build_as(dict(surfaces=c["surfaces"], flow=c["flow"]))
    zoo.run(prob)
    rng = np.random.default_rng(5)
    for s in prob._oas_surfaces:
        n = s["name"]
        def_mesh = zoo.get(prob, "AS_point_0.coupled.%s.def_mesh" % n)
        sf = zoo.get(prob, "AS_point_0.coupled.aero_states.%s_sec_forces" % n)
        loads = zoo.get(prob, "AS_point_0.coupled.%s_loads.loads" % n)
        q = om.Problem(reports=False)
        ivc = om.IndepVarComp()
        ivc.add_output("mesh", val=def_mesh, units="m")
        q.model.add_subsystem("ivc", ivc, promotes=["*"])
        q.model.add_subsystem("cn", ComputeNodes(surface=s), promotes=["*"])
        with warnings.catch_warnings():
            warnings.simplefilter("ignore")
            q.setup()
            q.run_model()
        spts = np.array(q.get_val("nodes"))
        conservation(o, "coupled2/load", rng, def_mesh, sf, spts, loads[:, :3], loads[:, 3:], tags=[n, "fem_origin=%g" % s["fem_origin"], "two_surfaces"])
    o.nontrivial = True


def run_mpf_sweep(c, o):
    s = dict(name="wing", symmetry=(c["mesh"]["half"] != "full"), mesh=c["mesh"])
    prob = zoo.build_aero(dict(surfaces=[s], flow=dict(alpha=c["alphas"][0], beta=0.0, v=80.0, rho=1.0, Mach_number=0.4), compressible=c["compressible"]), geom=False)
    rng = np.random.default_rng(11)
    mesh = prob._oas_surfaces[0]["mesh"]
    zero_seen = False
    for a in c["alphas"]:
        prob.set_val("alpha", a)
        zoo.run(prob)
        sf = zoo.get(prob, "aero.aero_states.wing_sec_forces")
        mpf = zoo.get(prob, "aero.aero_states.wing_mesh_point_forces")
        fs = np.abs(sf).sum()
        tags = ["sweep", "alpha=%g" % a, "compressible" if c["compressible"] else "incompressible"]
        if fs == 0:
            zero_seen = True
            o.close("mpf_sweep/zero_forces_give_zero_node_forces", mpf, 0.0, rtol=0, atol=0, tags=tags, what="panel forces are exactly zero at alpha=%g but the exported node forces are not" % a)
        else:
            conservation(o, "mpf_sweep", rng, mesh, sf, mesh, mpf, None, tags=tags)
    o.info = dict(zero_force_condition_reached=zero_seen)
    o.nontrivial = True


def run_case(c):
    o = Obs()
    {"load": run_load, "mpf": run_mpf, "disp": run_disp, "coupled": run_coupled, "coupled2": run_coupled2, "mpf_sweep": run_mpf_sweep}[c["kind"]](c, o)
    return o


# ---------------------------------------------------------------------------------------------- suite workload
# second workload source: the repository's own tests run under the monitor plugin (oasverif/plugin.py, oasverif/monitors.py);
# only the monitors that serve this property decide here
_cases_generated = cases
_run_case_generated = run_case


def cases(tier, seed):
    return _cases_generated(tier, seed) + [dict(kind="suite", tier=tier, _cost=200)]


def run_case(c):
    if c["kind"] != "suite":
        return _run_case_generated(c)
    from .. import suite

    o = Obs()
    suite.observe(o, "C11", c.get("tier", "quick"))
    return o
