"""C07 - mirror-image configurations give mirror-image results."""
import numpy as np

from ..obs import Obs
from .. import meshes as M
from .. import zoo

LEVEL = "exploration"
RULE = ("cases = (aero_reflect) random asymmetric full-span configurations (1-2 surfaces, sideslip, roll/yaw rates, offset "
        "reference point, compressible on/off) vs their reflection about the x-z plane; (as_reflect) asymmetric full-span "
        "aerostructural models (tube/wingbox, weight relief, fuel, point masses + thrust) vs their reflection; (as_symmetric) "
        "mirror-symmetric full-span aerostructural models: every field must be its own mirror image; (halves) left-half vs "
        "right-half symmetric aero models of one wing with meshes fed directly (viscous, ground effect); (dv_halves) every "
        "geometric design variable applied to a left-half and to the mirrored right-half mesh.  Non-trivial = non-zero forces "
        "and a geometry/flow that is not already mirror-symmetric (reflect kinds)")
ASSUMPTIONS = ["reflection about y=0: polar vectors (x,-y,z), axial vectors (-x,y,-z), spanwise node order reversed"]
REQUIRED_FAMILIES = ["aero_reflect/sec_forces", "aero_reflect/scalars", "aero_reflect/CM", "as_reflect/disp", "as_reflect/loads", "as_reflect/scalars",
                     "as_symmetric/disp", "as_symmetric/loads", "as_symmetric/vonmises", "halves/sec_forces", "halves/scalars", "dv_halves/mesh"]
LEVEL_TEXT = ("each generated configuration and its mirror image (or its two half-model representations) are executed with the "
              "real groups and all forces, moments, displacements, stresses and scalar metrics compared under the reflection")
TECHNIQUE = "runtime monitoring: metamorphic reflection twins (configuration vs mirror image, left half vs right half) compared field by field"

POL = np.array([1.0, -1.0, 1.0])
AX = np.array([-1.0, 1.0, -1.0])


def sane(spec):
    spec.update(root_chord=float(np.round(max(spec["root_chord"], spec["span"] / 9.0), 3)), taper=max(spec["taper"], 0.5), camber=0.0)
    return spec


def cases(tier, seed):
    rng = np.random.default_rng(7000 + seed)
    out = []
    n = 20 if tier == "quick" else 480
    for k in range(n):
        ns = int(rng.choice([1, 2, 3]))
        surfs = []
        for s in range(ns):
            spec = M.random_spec(rng, half="full", nx=int(rng.integers(2, 4)), ny=int(rng.integers(2, 8)), odd_full=False)
            spec["mirror_symmetric"] = False
            spec["offset"] = [float(np.round(s * rng.uniform(3, 8), 3)), float(np.round(rng.uniform(-2, 2), 3)), float(np.round(s * rng.uniform(0.3, 1.5), 3))]
            surfs.append(dict(name="s%d" % s, symmetry=False, mesh=spec, with_viscous=bool(k % 2), with_wave=bool(k % 3 == 0), CL0=0.0, CD0=0.0))
        rot = bool(k % 3 == 1)
        flow = dict(alpha=float(np.round(rng.uniform(-4, 10), 2)), beta=float(np.round(rng.uniform(-10, 10), 2)), v=float(rng.uniform(40, 240)),
                    rho=float(rng.uniform(0.3, 1.2)), Mach_number=float(np.round(rng.uniform(0.3, 0.85), 3)), re=1e6, cg=[float(x) for x in np.round(rng.uniform(-2, 3, 3), 3)])
        if rot:
            flow["omega"] = [float(x) for x in np.round(rng.uniform(-0.3, 0.3, 3), 4)]
        out.append(dict(kind="aero_reflect", surfaces=surfs, flow=flow, rotational=rot, compressible=bool(k % 4 == 2), _cost=3 * ns))
    n = 10 if tier == "quick" else 210
    for k in range(n):
        fem = "tube" if k % 2 else "wingbox"
        symmetric = bool(k % 2 == 0) if k < n // 2 else bool(k % 3 == 0)
        spec = sane(M.random_spec(rng, half="full", nx=int(rng.integers(2, 4)), ny=int(2 * rng.integers(1, 4) + 1)))
        spec["mirror_symmetric"] = symmetric
        npm = int(rng.choice([0, 1, 2]))
        sd = dict(name="wing", symmetry=False, mesh=spec, fem_model_type=fem, with_viscous=True, t_over_c_cp=[0.12], struct_weight_relief=bool(k % 3 != 1),
                  distributed_fuel_weight=bool(fem == "wingbox" and k % 4 < 2), exact_failure_constraint=bool(k % 2 == 0), fem_origin=0.35)
        if fem == "tube":
            sd["thickness_cp"] = [float(np.round(rng.uniform(0.015, 0.04), 4))]
        else:
            sd["spar_thickness_cp"] = [float(np.round(rng.uniform(0.004, 0.01), 4))]
            sd["skin_thickness_cp"] = [float(np.round(rng.uniform(0.005, 0.02), 4))]
        c = dict(kind="as_symmetric" if symmetric else "as_reflect", surface=sd, npm=npm,
                 flow=dict(alpha=float(np.round(rng.uniform(0, 6), 2)), v=float(rng.uniform(60, 160)), rho=float(rng.uniform(0.3, 0.8)), Mach_number=0.5,
                           load_factor=float(rng.choice([1.0, 2.5])), beta=0.0 if symmetric else float(np.round(rng.uniform(-6, 6), 2))), _cost=14)
        if npm:
            b2 = spec["span"] / 2
            if symmetric:
                half_n = 1
                ys = [float(rng.uniform(0.15, 0.9) * b2)]
                c["pm"] = [float(10 ** rng.uniform(1, 3))] * 2
                c["pm_loc"] = [[0.3, -ys[0], 0.1], [0.3, ys[0], 0.1]]
                c["thrust"] = [float(10 ** rng.uniform(2, 4))] * 2
                c["npm"] = 2
            else:
                c["pm"] = [float(x) for x in 10 ** rng.uniform(1, 3, npm)]
                c["pm_loc"] = [[float(rng.uniform(-1, 2)), float(rng.uniform(-0.9, 0.9) * b2), float(rng.uniform(-0.5, 0.5))] for _ in range(npm)]
                c["thrust"] = [float(x) for x in 10 ** rng.uniform(2, 4, npm)]
        out.append(c)
    n = 16 if tier == "quick" else 360
    for k in range(n):
        ns = int(rng.choice([1, 2, 3]))
        surfs = []
        for s in range(ns):
            spec = M.random_spec(rng, half="left", nx=int(rng.integers(2, 4)), ny=int(rng.integers(2, 7)))
            spec["offset"] = [float(np.round(s * rng.uniform(3, 8), 3)), 0.0, float(np.round(s * rng.uniform(0.3, 1.5), 3))]
            sd = dict(name="s%d" % s, symmetry=True, mesh=spec, with_viscous=bool(k % 2), with_wave=bool(k % 3 == 0), k_lam=0.05)
            if k % 4 == 3:
                sd["groundplane"] = True
            surfs.append(sd)
        flow = dict(alpha=float(np.round(rng.uniform(-4, 10), 2)), beta=0.0, v=float(rng.uniform(40, 240)), rho=float(rng.uniform(0.3, 1.2)),
                    Mach_number=float(np.round(rng.uniform(0.3, 0.9), 3)), re=1e6, cg=[float(np.round(rng.uniform(-1, 2), 3)), 0.0, 0.2])
        if k % 4 == 3:
            flow["height_agl"] = float(np.round(rng.uniform(5, 40), 2))
        # which surfaces are represented by their right half in the second model: all of them, or only some (mixed handedness)
        flip = [True] * ns if k % 2 == 0 else [bool(i % 2 == (k // 2) % 2) for i in range(ns)]
        out.append(dict(kind="halves", surfaces=surfs, flow=flow, compressible=bool(k % 4 == 1), flip=flip, _cost=3 * ns))
    dvs = ["span", "sweep", "dihedral", "taper", "chord_cp", "twist_cp", "xshear_cp", "yshear_cp", "zshear_cp"]
    reps = 2 if tier == "quick" else 30
    for rep in range(reps):
        for dv in dvs:
            spec = M.random_spec(rng, half="left", nx=int(rng.integers(2, 4)), ny=int(rng.integers(3, 8)))
            spec.update(camber=0.0, twist_tip_deg=0.0, dihedral_deg=0.0 if rep % 2 == 0 else float(np.round(rng.uniform(3, 10), 2)))
            ncp = int(rng.integers(1, 5))
            val = dict(span=float(np.round(spec["span"] * rng.uniform(0.6, 1.6), 3)), sweep=float(np.round(rng.uniform(5, 30), 2)),
                       dihedral=float(np.round(rng.uniform(3, 12), 2)), taper=float(np.round(rng.uniform(0.3, 0.8), 3))).get(dv)
            if val is None:
                cps = np.round(rng.uniform(0.5, 1.5, ncp) if dv == "chord_cp" else rng.uniform(-1, 1, ncp) * (5 if dv == "twist_cp" else 0.5), 3)
                val = [float(x) for x in cps]
            out.append(dict(kind="dv_halves", dv=dv, mesh=spec, val=val))
    # the same on full-span surfaces (symmetry off) whose two semi-spans differ: the mirror image of the wing with the mirrored
    # distribution must give the mirror image of the mesh
    for rep in range(reps):
        for dv in dvs:
            spec = M.random_spec(rng, half="full", nx=int(rng.integers(2, 4)), ny=int(rng.integers(1, 5)) * 2 + 1, odd_full=True)
            spec.update(camber=0.0, twist_tip_deg=0.0, dihedral_deg=0.0, mirror_symmetric=bool(rep % 2 == 1 and tier != "quick"))
            if rep % 3 != 2:
                spec["offset"] = [0.0, float(np.round(rng.uniform(-0.3, 0.3) * spec["span"], 3)), 0.0]  # unequal semi-spans about y=0
            ncp = int(rng.integers(1, 5))
            val = dict(span=float(np.round(spec["span"] * rng.uniform(0.6, 1.6), 3)), sweep=float(np.round(rng.uniform(5, 30), 2)),
                       dihedral=float(np.round(rng.uniform(3, 12), 2)), taper=float(np.round(rng.uniform(0.3, 0.8), 3))).get(dv)
            if val is None:
                cps = np.round(rng.uniform(0.5, 1.5, ncp) if dv == "chord_cp" else rng.uniform(-1, 1, ncp) * (5 if dv == "twist_cp" else 0.5), 3)
                val = [float(x) for x in cps]
            out.append(dict(kind="dv_halves", full=True, dv=dv, mesh=spec, val=val))
    for k in range(6 if tier == "quick" else 120):
        out.append(dict(kind="monotonic", ny=int(rng.integers(2, 12)), full=bool(k % 2), seed=int(rng.integers(1 << 30))))
    return out


def reflect_mesh_spec(spec):
    return dict(array=M.mirror(M.build(spec)).tolist())


def reflect_flow(flow):
    f = dict(flow)
    if "beta" in f:
        f["beta"] = -flow["beta"]
    if "cg" in f:
        f["cg"] = [flow["cg"][0], -flow["cg"][1], flow["cg"][2]]
    if "omega" in f:
        f["omega"] = [-flow["omega"][0], flow["omega"][1], -flow["omega"][2]]
    return f


def rev_panels(F):
    return F[:, ::-1, :] * POL


def run_aero_reflect(c, o):
    A = zoo.build_aero(dict(surfaces=c["surfaces"], flow=c["flow"], rotational=c["rotational"], compressible=c["compressible"]), geom=False)
    zoo.run(A)
    surfsB = [dict(s, mesh=reflect_mesh_spec(s["mesh"])) for s in c["surfaces"]]
    B = zoo.build_aero(dict(surfaces=surfsB, flow=reflect_flow(c["flow"]), rotational=c["rotational"], compressible=c["compressible"]), geom=False)
    zoo.run(B)
    tags = ["rot" if c["rotational"] else "norot", "compressible" if c["compressible"] else "incompressible"]
    fs = max(np.abs(zoo.get(A, "aero.aero_states.%s_sec_forces" % s["name"])).max() for s in c["surfaces"])
    for s in c["surfaces"]:
        n = s["name"]
        o.close("aero_reflect/sec_forces", zoo.get(B, "aero.aero_states.%s_sec_forces" % n), rev_panels(zoo.get(A, "aero.aero_states.%s_sec_forces" % n)),
                rtol=1e-9, scale=fs, tags=tags)
        for q in ("CL", "CD", "CDi", "CDv", "CDw", "L", "D"):
            o.close("aero_reflect/scalars", zoo.get(B, "aero.%s_perf.%s" % (n, q)), zoo.get(A, "aero.%s_perf.%s" % (n, q)), rtol=1e-9, atol=1e-13, tags=tags + [q])
        o.close("aero_reflect/Cl", zoo.get(B, "aero.%s_perf.Cl" % n), zoo.get(A, "aero.%s_perf.Cl" % n)[::-1], rtol=1e-9, atol=1e-13, tags=tags)
    for q in ("CL", "CD"):
        o.close("aero_reflect/scalars", zoo.get(B, "aero." + q), zoo.get(A, "aero." + q), rtol=1e-9, atol=1e-13, tags=tags)
    cm = zoo.get(A, "aero.CM")
    o.close("aero_reflect/CM", zoo.get(B, "aero.CM"), cm * AX, rtol=1e-9, scale=np.abs(cm).max() + 1e-6, tags=tags)
    o.nontrivial = bool(fs > 0)


def as_fields(P, fem):
    g = lambda n: zoo.get(P, "AS_point_0." + n)  # noqa: E731
    d = dict(disp=g("coupled.wing.disp"), loads=g("coupled.wing_loads.loads"), F=g("coupled.aero_states.wing_sec_forces"), vm=g("wing_perf.vonmises"),
             def_mesh=g("coupled.wing.def_mesh"), tl=g("coupled.wing.struct_states.total_loads"))
    d["scal"] = np.concatenate([np.ravel(g(q)) for q in ("CL", "CD", "fuelburn", "L_equals_W")] + [np.ravel(zoo.get(P, "wing.structural_mass"))])
    d["CM"] = g("CM")
    d["cg"] = g("cg")
    d["failure"] = g("wing_perf.failure")
    return d


def reflect6(a):
    """nodal 6-vectors (translation polar, rotation/moment axial) with reversed node order"""
    return np.hstack([a[::-1, :3] * POL, a[::-1, 3:] * AX])


def compare_as(o, fam, A, B, fem, tags, R=1e-7):
    o.close(fam + "/disp", B["disp"][:, :3], reflect6(A["disp"])[:, :3], rtol=R, tags=tags)
    o.close(fam + "/disp", B["disp"][:, 3:], reflect6(A["disp"])[:, 3:], rtol=R, tags=tags)
    o.close(fam + "/loads", B["loads"][:, :3], reflect6(A["loads"])[:, :3], rtol=R, tags=tags)
    o.close(fam + "/loads", B["loads"][:, 3:], reflect6(A["loads"])[:, 3:], rtol=R, scale=np.abs(A["loads"]).max(), tags=tags)
    o.close(fam + "/total_loads", B["tl"][:, :3], reflect6(A["tl"])[:, :3], rtol=R, tags=tags)
    o.close(fam + "/total_loads", B["tl"][:, 3:], reflect6(A["tl"])[:, 3:], rtol=R, scale=np.abs(A["tl"]).max(), tags=tags)
    o.close(fam + "/sec_forces", B["F"], rev_panels(A["F"]), rtol=R, tags=tags)
    o.close(fam + "/def_mesh", B["def_mesh"], A["def_mesh"][:, ::-1, :] * POL, rtol=R, tags=tags)
    o.close(fam + "/vonmises", B["vm"], A["vm"][::-1], rtol=R, tags=tags + ["vonmises"])
    o.close(fam + "/scalars", B["scal"][:2], A["scal"][:2], rtol=R, atol=1e-12, tags=tags)
    o.close(fam + "/scalars", B["scal"][2:], A["scal"][2:], rtol=R, atol=1e-12, tags=tags)
    o.close(fam + "/CM", B["CM"], A["CM"] * AX, rtol=R, scale=np.abs(A["CM"]).max() + 1e-6, tags=tags)
    o.close(fam + "/cg", B["cg"], A["cg"] * POL, rtol=R, scale=np.abs(A["cg"]).max() + 1e-6, tags=tags)
    if A["failure"].size > 1:
        o.close(fam + "/failure", B["failure"], A["failure"][::-1], rtol=R, atol=1e-9, tags=tags + ["vonmises"])
    else:
        o.close(fam + "/failure", B["failure"], A["failure"], rtol=R, atol=1e-9, tags=tags + ["vonmises"])


def build_as_case(c, reflected=False):
    sd = dict(c["surface"])
    fl = dict(c["flow"])
    case = dict(surfaces=[sd], flow=fl)
    if reflected:
        sd["mesh"] = reflect_mesh_spec(sd["mesh"])
        case["flow"] = reflect_flow(fl)
    if c["npm"]:
        sd["n_point_masses"] = c["npm"]
        loc = c["pm_loc"] if not reflected else [[p[0], -p[1], p[2]] for p in c["pm_loc"]]
        case.update(point_masses=c["pm"], point_mass_locations=loc, engine_thrusts=c["thrust"])
    return case


def run_as_reflect(c, o):
    fem = c["surface"]["fem_model_type"]
    A = zoo.build_as(build_as_case(c))
    zoo.run(A)
    B = zoo.build_as(build_as_case(c, reflected=True))
    zoo.run(B)
    fa, fb = as_fields(A, fem), as_fields(B, fem)
    tags = [fem, "npm=%d" % c["npm"], "relief" if c["surface"]["struct_weight_relief"] else "norelief"]
    compare_as(o, "as_reflect", fa, fb, fem, tags)
    o.nontrivial = bool(np.abs(fa["disp"]).max() > 0)


def run_as_symmetric(c, o):
    fem = c["surface"]["fem_model_type"]
    A = zoo.build_as(build_as_case(c))
    zoo.run(A)
    fa = as_fields(A, fem)
    tags = [fem, "npm=%d" % c["npm"], "relief" if c["surface"]["struct_weight_relief"] else "norelief", "self_mirror"]
    compare_as(o, "as_symmetric", fa, fa, fem, tags)
    o.nontrivial = bool(np.abs(fa["disp"]).max() > 0)


def run_halves(c, o):
    L = zoo.build_aero(dict(surfaces=c["surfaces"], flow=c["flow"], compressible=c["compressible"]), geom=False)
    zoo.run(L)
    flip = c.get("flip") or [True] * len(c["surfaces"])
    surfsR = [dict(s, mesh=reflect_mesh_spec(s["mesh"])) if f else dict(s) for s, f in zip(c["surfaces"], flip)]
    Rm = zoo.build_aero(dict(surfaces=surfsR, flow=c["flow"], compressible=c["compressible"]), geom=False)
    zoo.run(Rm)
    ground = any(s.get("groundplane") for s in c["surfaces"])
    tags = ["ground" if ground else "free", "compressible" if c["compressible"] else "incompressible", "handedness=" + "".join("R" if f else "L" for f in flip)]
    fs = max(np.abs(zoo.get(L, "aero.aero_states.%s_sec_forces" % s["name"])).max() for s in c["surfaces"])
    for s, f in zip(c["surfaces"], flip):
        n = s["name"]
        FL = zoo.get(L, "aero.aero_states.%s_sec_forces" % n)
        o.close("halves/sec_forces", zoo.get(Rm, "aero.aero_states.%s_sec_forces" % n), rev_panels(FL) if f else FL, rtol=1e-9, scale=fs, tags=tags)
        for q in ("CL", "CD", "CDi", "CDv", "CDw", "L", "D"):
            o.close("halves/scalars", zoo.get(Rm, "aero.%s_perf.%s" % (n, q)), zoo.get(L, "aero.%s_perf.%s" % (n, q)), rtol=1e-9, atol=1e-13, tags=tags + [q])
        o.close("halves/S_ref", zoo.get(Rm, "aero.%s.S_ref" % n), zoo.get(L, "aero.%s.S_ref" % n), rtol=1e-12, tags=tags)
    for q in ("CL", "CD", "CM"):
        o.close("halves/scalars", zoo.get(Rm, "aero." + q), zoo.get(L, "aero." + q), rtol=1e-9, atol=1e-12, tags=tags + ["total_" + q])
    o.nontrivial = bool(fs > 0)


def run_dv_halves(c, o):
    from .c13 import run_geometry

    mesh = M.build(c["mesh"])
    dv = c["dv"]
    val = np.array(c["val"], float) if isinstance(c["val"], list) else c["val"]
    full = bool(c.get("full", False))
    sl = dict(name="wing", symmetry=not full, mesh=mesh.copy(), S_ref_type="wetted")
    sl[dv] = val
    sr = dict(name="wing", symmetry=not full, mesh=M.mirror(mesh), S_ref_type="wetted")
    # a spanwise distribution is mirrored together with the wing (control points run along increasing y)
    sr[dv] = val[::-1].copy() if isinstance(val, np.ndarray) else val
    if dv == "yshear_cp":
        sr[dv] = -sr[dv]  # a lateral translation is the y component of a polar vector: it changes sign under the reflection
    pl = run_geometry(sl)
    pr = run_geometry(sr)
    ml = np.array(pl.get_val("mesh"))
    mr = np.array(pr.get_val("mesh"))
    tags = ["dv=" + dv.replace("_cp", ""), "full_span_mesh" if full else "right_half_mesh"] + (["axis_dihedral"] if abs(c["mesh"].get("dihedral_deg", 0.0)) > 0 else [])
    o.close("dv_halves/mesh", mr, M.mirror(ml), rtol=1e-11, scale=np.abs(ml).max(), tags=tags,
            what=("%s on the mirror image of a full-span wing vs the mirror image of the result" if full else "%s on a right-half mesh vs the mirror image of the left-half result") % dv)
    o.nontrivial = bool(np.abs(ml - mesh).max() > 1e-6)


def run_monotonic(c, o):
    """MonotonicConstraint: reversing a spanwise distribution of a full-span surface reverses the constraint values; a left-half
    distribution and its right-half mirror image give mirror-image values; the values are <= 0 exactly for distributions that
    decrease from the root to each tip"""
    import openmdao.api as om
    from openaerostruct.geometry.monotonic_constraint import MonotonicConstraint

    rng = np.random.default_rng(c["seed"])
    ny = c["ny"]
    if c["full"]:
        ny = max(3, ny | 1)
    mesh = M.build(dict(nx=2, ny=ny, half="full" if c["full"] else "left"))

    def run(x, sym, m):
        p = om.Problem(reports=False)
        iv = om.IndepVarComp()
        iv.add_output("x", val=x)
        p.model.add_subsystem("iv", iv, promotes=["*"])
        p.model.add_subsystem("mc", MonotonicConstraint(var_name="x", surface=dict(symmetry=sym, mesh=m)), promotes=["*"])
        p.setup()
        p.run_model()
        return np.array(p.get_val("monotonic_x"))

    x = rng.uniform(0.5, 2.0, ny)
    tags = ["monotonic", "full" if c["full"] else "half"]
    if c["full"]:
        a = run(x, False, mesh)
        b = run(x[::-1].copy(), False, mesh)
        o.close("monotonic/mirror", b, a[::-1], rtol=1e-13, tags=tags, what="reversed distribution on a full-span surface")
        root = (ny - 1) // 2
        xs = np.concatenate([np.sort(x[:root + 1]), np.sort(x[root + 1:])[::-1]])
        xs[root] = xs.max() + 0.1  # largest at the root, decreasing to both tips
        o.le("monotonic/sign", run(xs, False, mesh), 0.0, slack=1e-13, tags=tags, what="distribution decreasing from root to both tips must satisfy the constraint")
    else:
        a = run(x, True, mesh)
        xs = np.sort(x)  # left half: tip first, root last -> increasing towards the root
        o.le("monotonic/sign", run(xs, True, mesh), 0.0, slack=1e-13, tags=tags, what="distribution decreasing from root to tip must satisfy the constraint")
        o.true("monotonic/sign_violated_detected", bool(np.any(run(xs[::-1].copy(), True, mesh) > 0)) or ny < 2, "a distribution growing towards the tip must violate the constraint", tags=tags)
        o.close("monotonic/mirror", a, x[:-1] - x[1:], rtol=1e-13, tags=tags)
    o.nontrivial = True


def run_case(c):
    o = Obs()
    if c["kind"] == "monotonic":
        run_monotonic(c, o)
        return o
    {"aero_reflect": run_aero_reflect, "as_reflect": run_as_reflect, "as_symmetric": run_as_symmetric, "halves": run_halves,
     "dv_halves": run_dv_halves}[c["kind"]](c, o)
    return o
