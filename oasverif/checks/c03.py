"""C03 - outputs and derivatives depend only on the current point, not on history."""
import warnings

import numpy as np

from ..obs import Obs
from .. import meshes as M
from .. import zoo

LEVEL = "exploration"
RULE = ("cases = seeded random operation histories (length 8-30) on ONE live problem per case - operations {move to one of 3-4 "
        "design points, run_model, run_linearize, compute_totals, check_partials(fd|cs) on a random subset of components, "
        "check_totals(fd), repeated linearisation} - for aero points (viscous + wave drag, sub- and supercritical Mach), "
        "structure-only models, aerostructural points (tube, wingbox, weight relief, fuel) and 2-point multipoint models.  "
        "Whenever the live problem has been run at its current point, all outputs, every component sub-Jacobian and the total "
        "derivatives are compared with a freshly built problem evaluated once at that point; an input-immutability guard "
        "watches every compute call.  Non-trivial = the history visited >= 2 distinct points and >= 3 observation points")
ASSUMPTIONS = ["a fresh problem evaluated once at the point defines the expected outputs/derivatives",
               "OpenMDAO's check_partials(fd) overwrites setup-constant sub-Jacobians with its estimates (framework behaviour): those entries are compared at 1e-5 after such an operation"]
REQUIRED_FAMILIES = ["hist/outputs", "hist/component_jacobians", "hist/totals", "hist/repeat_linearize", "guard/inputs_unmodified"]
LEVEL_TEXT = ("one live problem is driven through a generated history of runs, linearisations, derivative checks and moves between "
              "design points; at every observation point its complete output vector, every component sub-Jacobian and the totals "
              "are compared with a fresh problem, and a guard on every compute call checks that inputs are left untouched")
TECHNIQUE = "runtime monitoring: history replay vs fresh-problem oracle + input-immutability guard hooked on every component compute"

STATEFUL = ("MomentCoefficient", "VLMMtxRHSComp", "SolveMatrix", "FEM", "VonMisesTube", "VortexMesh", "ViscousDrag", "WaveDrag", "LoadTransfer",
            "StructureWeightLoads", "HorseshoeCirculations", "Taper", "Rotate", "EvalVelMtx", "WingboxFuelVolDelta")
CASE_TIMEOUT = {"quick": 900, "thorough": 2400}


# ---------------------------------------------------------------------------------------------- models and points
def gen(c):
    rng = np.random.default_rng(c["seed"])
    model = c["model"]
    symc = bool(rng.integers(2)) or bool(c.get("force_wingbox_sym"))
    half = "left" if symc else "full"
    ny = int(rng.integers(3, 5))
    if half == "full":
        ny = ny | 1
    spec = M.random_spec(rng, half=half, nx=2, ny=ny)
    spec.update(root_chord=float(np.round(max(spec["root_chord"], spec["span"] / 9.0), 3)), taper=max(spec["taper"], 0.5), camber=0.0)
    flat = bool(c["seed"] % 3 == 0)
    if flat:
        spec.update(twist_tip_deg=0.0)  # with zero twist and alpha = 0 every panel force is exactly zero: a special point of the pool
    s = dict(name="wing", symmetry=symc, mesh=spec, with_viscous=True, with_wave=True, twist_cp=[1.0, 2.0], t_over_c_cp=[0.12])
    pts = []
    if model == "aero":
        case = dict(surfaces=[s], flow=dict(alpha=3.0, beta=0.0, v=200.0, rho=0.5, Mach_number=0.6, re=1e6, cg=[0.2, 0.0, 0.1]), compressible=bool(rng.integers(2)))
        if rng.random() < 0.5:
            s2 = dict(name="tail", symmetry=symc, mesh=dict(M.random_spec(rng, half=half, nx=2, ny=3), offset=[6.0, 0.0, 0.6]), with_viscous=True, with_wave=False)
            case["surfaces"].append(s2)
        rot = bool(c["seed"] % 2 == 1)
        if rot:
            # a steady body rate that is on at some design points and exactly zero at the others
            case["rotational"] = True
            case["flow"]["omega"] = [0.0, 0.0, 0.0]
        for k in range(c["npoints"]):
            pts.append({"alpha": float(np.round(rng.uniform(0, 8), 2)), "Mach_number": [0.55, 0.93, 0.7, 0.9][k % 4], "v": float(rng.uniform(100, 250)),
                        "wing.twist_cp": [float(x) for x in np.round(rng.uniform(-3, 3, 2), 2)], "cg": [float(x) for x in np.round(rng.uniform(-1, 1, 3), 2)]})
            if rot:
                pts[-1]["omega"] = [0.0, 0.0, 0.0] if k % 2 else [float(x) for x in np.round(rng.uniform(-0.3, 0.3, 3), 3)]
        if flat:
            pts[-1].update({"alpha": 0.0, "wing.twist_cp": [0.0, 0.0]})
        of = ["aero.CL", "aero.CD", "aero.CM", "aero.total_perf.moment.M", "aero.wing_perf.CDw", "aero.wing_perf.CDv"]
        wrt = ["alpha", "Mach_number", "wing.twist_cp", "v", "cg", "re"] + (["omega"] if rot else [])
        return "aero", case, pts, of, wrt
    fem = "tube" if rng.integers(2) else "wingbox"
    if c.get("force_wingbox_sym"):
        fem = "wingbox"
    s.update(fem_model_type=fem, struct_weight_relief=bool(rng.integers(2)), distributed_fuel_weight=bool(fem == "wingbox" and rng.integers(2)),
             exact_failure_constraint=False)
    if fem == "tube":
        s["thickness_cp"] = [0.02, 0.03]
        tk = "wing.thickness_cp"
        tv = lambda: [float(x) for x in np.round(rng.uniform(0.015, 0.04, 2), 4)]  # noqa: E731
    else:
        s["spar_thickness_cp"] = [0.005, 0.008]
        s["skin_thickness_cp"] = [0.008, 0.015]
        tk = "wing.spar_thickness_cp"
        tv = lambda: [float(x) for x in np.round(rng.uniform(0.004, 0.01, 2), 4)]  # noqa: E731
    npm = int(rng.choice([0, 1, 2]))
    extra = {}
    b2 = spec["span"] / 2

    def pm_point(k):
        """engine position, mass and thrust of design point k (thrust exactly zero at every other point)"""
        if not npm:
            return {}
        return {"point_mass_locations": [[float(rng.uniform(-1, 2)), float(-rng.uniform(0.15, 0.85) * b2), float(rng.uniform(-0.5, 0.5))] for _ in range(npm)],
                "point_masses": [float(x) for x in 10 ** rng.uniform(1.5, 3, npm)],
                "engine_thrusts": [0.0] * npm if k % 2 else [float(x) for x in 10 ** rng.uniform(2, 4, npm)]}

    if npm:
        s["n_point_masses"] = npm
        extra = pm_point(0)
    if model == "struct":
        s["distributed_fuel_weight"] = False
        case = dict(surface=s, load_seed=int(rng.integers(1 << 30)), **extra)
        tkk = tk.replace("wing.", "")
        for k in range(c["npoints"]):
            pts.append(dict({tkk: tv(), "load_factor": float(rng.choice([1.0, 2.5])) if k != 1 else 0.0}, **pm_point(k)))
        if npm:
            pts[-1]["point_masses"] = [0.0] * npm  # special values: no mass, no inertial load
        of = ["failure", "structural_mass", "disp"]
        wrt = [tkk, "loads"]
        return "struct", case, pts, of, wrt
    npts = 2 if model == "multipoint" else 1
    flows = [dict(alpha=3.0, v=150.0, rho=0.5, Mach_number=0.7, load_factor=1.0), dict(alpha=5.0, v=120.0, rho=0.7, Mach_number=0.6, load_factor=2.5)][:npts]
    case = dict(surfaces=[s], flows=flows, compressible=bool(rng.integers(2)), **extra)
    for k in range(c["npoints"]):
        p = {"alpha_0": float(np.round(rng.uniform(0, 6), 2)), "Mach_number_0": [0.6, 0.9, 0.75, 0.88][k % 4], tk: tv(),
             "wing.twist_cp": [float(x) for x in np.round(rng.uniform(-2, 2, 2), 2)]}
        p.update(pm_point(k))
        if npts == 2:
            p["alpha_1"] = float(np.round(rng.uniform(0, 6), 2))
        pts.append(p)
    of = ["AS_point_0.CL", "AS_point_0.CD", "AS_point_0.CM", "AS_point_0.fuelburn", "AS_point_0.wing_perf.failure", "AS_point_0.L_equals_W", "wing.structural_mass"]
    if fem == "wingbox":
        case["fuel_vol_delta"] = True
        of += ["wing_fuel_vol_delta.fuel_vol_delta"]
    wrt = ["alpha_0", "Mach_number_0", tk, "wing.twist_cp"]
    if npts == 2:
        of += ["AS_point_1.CL", "AS_point_1.fuelburn"]
        wrt += ["alpha_1"]
    return "as", case, pts, of, wrt


def cases(tier, seed):
    rng = np.random.default_rng(3000 + seed)
    out = []
    n = 20 if tier == "quick" else 400
    for k in range(n):
        model = ["aero", "as", "struct", "aero", "as", "multipoint"][k % 6]
        out.append(dict(kind="history", model=model, seed=int(rng.integers(1 << 30)), npoints=int(rng.integers(3, 5)), length=int(rng.integers(8, 16 if tier == "quick" else 78)),
                        force_wingbox_sym=bool(k == 1),
                        _cost={"aero": 6, "as": 14, "struct": 5, "multipoint": 25}[model]))
    # component-level histories: every component of a generated model, alone, taken from its captured point to special-valued points
    # (one input at a time all zeros / all ones / its declared default) and back, against a fresh instance at the same inputs
    n = 8 if tier == "quick" else 120
    for k in range(n):
        model = ["aero", "as", "struct", "as"][k % 4]
        out.append(dict(kind="comp_history", model=model, seed=int(rng.integers(1 << 30)), npoints=2, length=0, force_wingbox_sym=bool(k % 8 == 1),
                        _cost={"aero": 8, "as": 20, "struct": 6}[model]))
    return out


# ---------------------------------------------------------------------------------------------- instrumentation
class InputGuard:
    """snapshot of a component's input vector around every compute call (installed on OpenMDAO's wrapper)"""

    def __init__(self):
        self.calls = 0
        self.mutations = {}
        self._orig = None

    def install(self):
        from openmdao.core.explicitcomponent import ExplicitComponent

        guard = self
        self._orig = orig = ExplicitComponent._compute_wrapper

        def wrapper(comp):
            if not type(comp).__module__.startswith("openaerostruct"):
                return orig(comp)
            before = comp._inputs.asarray().copy()
            r = orig(comp)
            guard.calls += 1
            after = comp._inputs.asarray()
            if not np.array_equal(before, after, equal_nan=True):
                guard.mutations.setdefault(type(comp).__name__, 0)
                guard.mutations[type(comp).__name__] += 1
            return r

        ExplicitComponent._compute_wrapper = wrapper

    def remove(self):
        from openmdao.core.explicitcomponent import ExplicitComponent

        if self._orig is not None:
            ExplicitComponent._compute_wrapper = self._orig


def build(kind, case, mode="auto"):
    # complex storage is allocated so that check_partials can use complex step: OpenMDAO's finite-difference check overwrites
    # setup-constant sub-Jacobians with its (inexact) estimates for good, the complex-step check leaves them exact
    if kind == "aero":
        return zoo.build_aero(case, geom=True, complex_=True, mode=mode)
    if kind == "struct":
        return zoo.build_struct(case, complex_=True, mode=mode)
    return zoo.build_as(case, complex_=True, mode=mode)


def set_point(prob, pt):
    for k, v in pt.items():
        prob.set_val(k, np.array(v, float))


def outputs_of(prob):
    from openmdao.core.component import Component

    out = {}
    for s in prob.model.system_iter(recurse=True, typ=Component):
        if type(s).__module__.startswith("openaerostruct"):
            for n in s._outputs:
                out[s.pathname + ":" + n] = np.array(s._outputs[n], float).copy()
    return out


def jacs_live(prob, keys):
    j = jacs_of(prob)
    return {k: j[k] for k in keys if k in j}


def jacs_of(prob):
    from openmdao.core.component import Component

    out = {}
    for s in prob.model.system_iter(recurse=True, typ=Component):
        if not type(s).__module__.startswith("openaerostruct"):
            continue
        for (of, wrt), info in s._subjacs_info.items():
            v = info.get("val")
            if v is None:
                continue
            v = v.toarray() if hasattr(v, "toarray") else np.asarray(v)
            out["%s|%s" % (of, wrt)] = np.array(v, float).ravel().copy()
    return out


def totals_of(prob, of, wrt):
    with warnings.catch_warnings():
        warnings.simplefilter("ignore")
        J = prob.compute_totals(of=of, wrt=wrt)
    return {"%s|%s" % k: np.array(v, float).copy() for k, v in J.items()}


def cmp_dicts(o, fam, live, ref, tol_for, tags, what):
    worst, bad = 0.0, None
    # totals: a derivative that is round-off relative to the other derivatives of the same function is an exact zero
    rowmax = {}
    if fam == "hist/totals":
        for k, v in ref.items():
            r_ = k.split("|")[0]
            rowmax[r_] = max(rowmax.get(r_, 0.0), float(np.abs(v).max(initial=0.0)))
    if set(live) != set(ref):
        o.true(fam, False, "%s: different key sets" % what, tags=tags)
        return
    for k in ref:
        a, b = live[k], ref[k]
        if a.shape != b.shape:
            try:
                a, b = np.broadcast_arrays(a, b)
            except ValueError:
                worst, bad = float("inf"), k
                break
        sc = max(np.abs(a).max(initial=0.0), np.abs(b).max(initial=0.0))
        if sc == 0:
            continue
        rt, at = tol_for(k)
        at = at + 1e-9 * rowmax.get(k.split("|")[0], 0.0)
        e = float(np.abs(a - b).max()) / (rt * sc + at)
        if e > worst:
            worst, bad = e, k
    o._fam(fam, worst)
    if worst > 1.0:
        comp = bad.split("|")[0].rsplit(".", 1)[0] if "|" in bad else bad.split(":")[0]
        o.violate(fam, "%s: %s differs from the fresh problem by %.3g x tolerance" % (what, bad, worst), err=worst, tol=1.0, tags=list(tags) + ["key=" + bad.split(".")[-1]],
                  key=bad, component=comp)


def run_history(c, o):
    rng = np.random.default_rng(c["seed"] + 7)
    kind, case, pts, of, wrt = gen(c)
    coupled = kind == "as"
    base_rt = 1e-7 if coupled else 1e-11
    tags = [c["model"], kind]
    # ---- fresh references
    ref = []
    const = None
    relevant = None
    for pt in pts:
        p = build(kind, case)
        set_point(p, pt)
        p.final_setup()
        s0 = jacs_of(p)
        zoo.run(p)
        with warnings.catch_warnings():
            warnings.simplefilter("ignore")
            p.model.run_linearize()
        s1 = jacs_of(p)
        same = {k: bool(np.array_equal(s0[k], s1[k])) for k in s1 if k in s0}
        const = same if const is None else {k: const[k] and same.get(k, False) for k in const}
        tot = totals_of(p, of, wrt)
        # OpenMDAO only refreshes sub-Jacobians that are relevant to the requested totals once compute_totals has run
        # (framework behaviour): compare only those, identified on a second fresh problem that computes totals first
        # the second fresh problem is solved in the other derivative direction: the difference between the two fresh answers is the
        # round-off floor of the linear solve for each total (observed: 5e-5 relative on dCM/dtwist of a wing whose coupled Jacobian
        # has condition number 1e15, with every sub-Jacobian and every output equal to 1e-15)
        p2 = build(kind, case, mode="rev" if p._mode == "fwd" else "fwd")
        set_point(p2, pt)
        zoo.run(p2)
        tot2 = totals_of(p2, of, wrt)
        noise = {k: float(np.abs(tot[k] - tot2[k]).max(initial=0.0)) if k in tot2 and tot2[k].shape == tot[k].shape else 0.0 for k in tot}
        with warnings.catch_warnings():
            warnings.simplefilter("ignore")
            p2.model.run_linearize()
        s2 = jacs_of(p2)
        rel = {k: bool(k in s2 and s1[k].shape == s2[k].shape and np.allclose(s1[k], s2[k], rtol=1e-9, atol=0)) for k in s1}
        relevant = rel if relevant is None else {k: relevant[k] and rel.get(k, False) for k in relevant}
        ref.append(dict(out=outputs_of(p), jac=s1, tot=tot, noise=noise))
    for r_ in ref:
        r_["jac"] = {k: v for k, v in r_["jac"].items() if relevant.get(k, False)}
    o.count("relevant_subjacobians", sum(relevant.values()))
    # ---- the live problem and its history
    guard = InputGuard()
    guard.install()
    try:
        live = build(kind, case)
        cur = None
        dirty = True
        polluted_comps = set()  # components whose constant sub-Jacobians the framework has overwritten with FD estimates
        visited = set()
        nobs = 0
        ops = []

        def tol_jac(k):
            if const.get(k, False) and k.split("|")[0].rsplit(".", 1)[0] in polluted_comps:
                return 1e30, 1.0  # framework-written estimates: not the repository's doing
            return max(base_rt, 1e-9), 0.0

        def tol_out(k):
            return base_rt, 0.0

        def tol_tot(k):
            return (1e-4, 1e-9) if polluted_comps else (max(base_rt, 1e-9) * 10, 20.0 * ref[cur]["noise"].get(k, 0.0))

        def observe(tag):
            nonlocal nobs
            nobs += 1
            cmp_dicts(o, "hist/outputs", outputs_of(live), ref[cur]["out"], tol_out, tags + ["after=" + tag], "outputs after %s" % ops[-6:])

        for step in range(c["length"]):
            choices = ["move", "run", "linearize", "totals", "check_partials", "check_totals", "repeat_linearize"]
            w = [3, 4, 2, 3, 1, 1, 1]
            if cur is None:
                op = "move"
            elif dirty:
                op = str(rng.choice(["run", "run", "run", "move"]))
            else:
                op = str(rng.choice(choices, p=np.array(w) / sum(w)))
            ops.append(op if op != "move" else None)
            if op == "move":
                cur = int(rng.integers(len(pts)))
                ops[-1] = "move%d" % cur
                set_point(live, pts[cur])
                dirty = True
                visited.add(cur)
            elif op == "run":
                zoo.run(live)
                dirty = False
                observe("run")
            elif op == "linearize":
                with warnings.catch_warnings():
                    warnings.simplefilter("ignore")
                    live.model.run_linearize()
                cmp_dicts(o, "hist/component_jacobians", jacs_live(live, ref[cur]["jac"]), ref[cur]["jac"], tol_jac, tags, "component Jacobians after %s" % ops[-6:])
                nobs += 1
            elif op == "repeat_linearize":
                for _ in range(int(rng.integers(2, 6))):
                    with warnings.catch_warnings():
                        warnings.simplefilter("ignore")
                        live.model.run_linearize()
                cmp_dicts(o, "hist/repeat_linearize", jacs_live(live, ref[cur]["jac"]), ref[cur]["jac"], tol_jac, tags, "component Jacobians after repeated linearisation, history %s" % ops[-6:])
                nobs += 1
            elif op == "totals":
                if not polluted_comps:
                    cmp_dicts(o, "hist/totals", totals_of(live, of, wrt), ref[cur]["tot"], tol_tot, tags, "totals after %s" % ops[-6:])
                    nobs += 1
                else:
                    totals_of(live, of, wrt)  # still part of the history
                    o.count("totals_not_compared_after_framework_fd_pollution")
            elif op == "check_partials":
                from openmdao.core.component import Component

                comps = [s for s in live.model.system_iter(recurse=True, typ=Component) if type(s).__module__.startswith("openaerostruct")]
                # two components known to keep state between calls plus two arbitrary ones
                stateful = [i for i, s_ in enumerate(comps) if type(s_).__name__ in STATEFUL]
                if rng.random() < 0.35:
                    sel = list(range(len(comps)))  # the whole model, as a user calling prob.check_partials() would
                else:
                    sel = list(rng.choice(stateful, size=min(2, len(stateful)), replace=False)) if stateful else []
                    sel += [int(i) for i in rng.choice(len(comps), size=min(2, len(comps)), replace=False) if i not in sel]
                # components whose own check options force finite differences get their constant sub-Jacobians overwritten by the
                # framework with FD estimates: remember them, their constants (and totals through them) are no longer exact
                method = "fd" if rng.random() < 0.5 else "cs"
                for i in sel:
                    if method == "fd" or any((d[1] if isinstance(d, tuple) else d.get("method")) == "fd" for d in getattr(comps[i], "_declared_partial_checks", [])):
                        polluted_comps.add(comps[i].pathname)
                with warnings.catch_warnings():
                    warnings.simplefilter("ignore")
                    try:
                        live.check_partials(out_stream=None, includes=[comps[i].pathname for i in sel], method=method)
                        ops[-1] = "check_partials_" + method
                    except Exception as e:  # noqa: BLE001
                        ops[-1] = "check_partials_failed:" + type(e).__name__
                # the framework restores inputs and outputs: the problem is still at its point
                observe("check_partials")
                # ... so a linearisation right now (no re-run) must reproduce the fresh Jacobians
                with warnings.catch_warnings():
                    warnings.simplefilter("ignore")
                    live.model.run_linearize()
                cmp_dicts(o, "hist/component_jacobians", jacs_live(live, ref[cur]["jac"]), ref[cur]["jac"], tol_jac, tags + ["after=check_partials"],
                          "component Jacobians linearised right after check_partials (no re-run), history %s" % ops[-6:])
                nobs += 1
            elif op == "check_totals":
                with warnings.catch_warnings():
                    warnings.simplefilter("ignore")
                    try:
                        live.check_totals(of=of[:2], wrt=wrt[:2], method="fd", step=1e-4, out_stream=None)
                    except Exception as e:  # noqa: BLE001
                        ops[-1] = "check_totals_failed:" + type(e).__name__
                observe("check_totals")
                if not polluted_comps:  # once the framework has written FD estimates into constant Jacobians the totals are not the repository's
                    cmp_dicts(o, "hist/totals", totals_of(live, of, wrt), ref[cur]["tot"], lambda k: (1e-7 if not coupled else 1e-6, 1e-10 + 20.0 * ref[cur]["noise"].get(k, 0.0)), tags + ["after=check_totals"],
                              "totals right after check_totals (no re-run), history %s" % ops[-6:])
                    nobs += 1
    finally:
        guard.remove()
    o.count("compute_calls_guarded", guard.calls)
    o.count("observation_points", nobs)
    for cls, n in guard.mutations.items():
        o.violate("guard/inputs_unmodified", "%s.compute modified its own input vector in place (%d calls)" % (cls, n), err=float(n), tol=0.0, tags=tags + ["class=" + cls])
    o._fam("guard/inputs_unmodified", float("inf") if guard.mutations else 0.0)
    o.info = dict(ops=ops, points=len(pts), visited=len(visited), observations=nobs)
    o.nontrivial = bool(len(visited) >= 2 and nobs >= 3)


def run_comp_history(c, o):
    """outputs of a component are a function of its current inputs only: an instance that has already been evaluated elsewhere gives,
    at special-valued inputs (where shortcuts and early returns live), what a fresh instance gives there, and returns to its first
    answer afterwards"""
    from .. import diff

    rng = np.random.default_rng(c["seed"] + 3)
    kind, case, pts, _of, _wrt = gen(c)
    if kind == "aero":
        case["rotational"] = True
        case["flow"]["omega"] = [float(x) for x in np.round(rng.uniform(-0.3, 0.3, 3), 3)]
    prob = build(kind, case)
    set_point(prob, pts[0])
    zoo.run(prob)
    evs = diff.capture(prob)
    tags = [c["model"], kind, "component_history"]
    ncomp = 0
    for ev in evs:
        name = ev["cls"].__name__
        X1 = ev["inputs"]
        if not X1:
            continue
        try:
            live = diff.replay_problem(ev["cls"], ev["opts"], X1, ev["outputs"])
        except Exception:  # noqa: BLE001
            continue
        comp = live.model.c
        out1 = {n: np.array(comp._outputs[n]).copy() for n in comp._outputs}
        ncomp += 1
        names = list(X1)
        if len(names) > 10:
            names = [names[i] for i in sorted(rng.choice(len(names), 10, replace=False))]
        for n in names:
            meta = comp._var_rel2meta.get(n, {})
            dflt = np.broadcast_to(np.asarray(meta.get("val", 0.0), float), X1[n].shape) if meta else np.zeros_like(X1[n])
            for label, sv in (("zeros", np.zeros_like(X1[n])), ("ones", np.ones_like(X1[n])), ("default", np.array(dflt, float))):
                if np.array_equal(sv, X1[n]):
                    continue
                X2 = dict(X1)
                X2[n] = sv
                try:
                    with np.errstate(all="ignore"):
                        fresh = diff.replay_problem(ev["cls"], ev["opts"], X2, ev["outputs"])
                    fout = {q: np.array(fresh.model.c._outputs[q]).copy() for q in fresh.model.c._outputs}
                except Exception:  # noqa: BLE001  (a special value the component legitimately cannot take, e.g. a singular matrix)
                    o.count("special_points_rejected_by_fresh_instance")
                    continue
                if not all(np.all(np.isfinite(v)) for v in fout.values()):
                    o.count("special_points_not_finite_on_fresh_instance")
                    continue
                try:
                    with np.errstate(all="ignore"):
                        diff.reset_inputs(live, X2, ev["outputs"])
                except Exception as e:  # noqa: BLE001
                    o.violate("comp_hist/special_point", "%s raised at %s=%s after a previous evaluation although a fresh instance evaluates there: %s: %s" % (name, n, label, type(e).__name__, str(e)[:120]),
                              tags=tags + ["class=" + name, "input=" + n, label])
                    live = diff.replay_problem(ev["cls"], ev["opts"], X1, ev["outputs"])
                    comp = live.model.c
                    continue
                for q, v in fout.items():
                    sc = max(float(np.abs(v).max()), float(np.abs(out1[q]).max()), 1e-300)
                    o.close("comp_hist/special_point", np.array(comp._outputs[q], float), v, rtol=1e-12, scale=sc, tags=tags + ["class=" + name, "input=" + n, label],
                            what="%s.%s at %s=%s reached from the captured point vs a fresh instance" % (name, q, n, label), key=q, component=name)
                # ... and back
                diff.reset_inputs(live, X1, ev["outputs"])
                for q, v in out1.items():
                    sc = max(float(np.abs(v).max()), 1e-300)
                    o.close("comp_hist/return", np.array(comp._outputs[q], float), v, rtol=1e-12, scale=sc, tags=tags + ["class=" + name, "input=" + n, label],
                            what="%s.%s back at the captured point after %s=%s" % (name, q, n, label), key=q, component=name)
                o.count("component_special_point_round_trips")
    o.count("components_taken_through_histories", ncomp)
    o.nontrivial = ncomp > 0


def run_case(c):
    o = Obs()
    if c["kind"] == "comp_history":
        run_comp_history(c, o)
    else:
        run_history(c, o)
    return o


# ---------------------------------------------------------------------------------------------- suite workload
# second workload source: the repository's own tests run under the monitor plugin (oasverif/plugin.py, oasverif/monitors.py);
# only the monitors that serve this property decide here
_cases_generated = cases
_run_case_generated = run_case


def cases(tier, seed):
    return _cases_generated(tier, seed) + [dict(kind="suite", tier=tier, _cost=200)]


def run_case(c):
    if c["kind"] != "suite":
        return _run_case_generated(c)
    from .. import suite

    o = Obs()
    suite.observe(o, "C03", c.get("tier", "quick"), guard=True)
    return o
