"""C16 - mass, centre of gravity and inertial, fuel and thrust loads are conserved."""
import warnings

import numpy as np

from ..obs import Obs
from .. import meshes as M
from .. import zoo

G0 = 9.80665

LEVEL = "exploration"
RULE = ("cases = the repository's SpatialBeamSetup + SpatialBeamStates groups (tube and wingbox, symmetric and full span) "
        "with weight relief, distributed fuel, 0-4 point masses/thrusts anywhere along the span, random meshes, section "
        "areas, densities, weight ratios, load factors, fuel masses and reserves; structural mass, cg, every load source, "
        "their sum, fuel volumes and the fuel-volume margin are compared with first principles (resultant force and "
        "moment about three random points).  Non-trivial = all enabled load sources non-zero")
ASSUMPTIONS = ["statics of resultants; uniform weight per element acts at the element mid point", "g = 9.80665 m/s^2"]
REQUIRED_FAMILIES = ["mass/structural_mass", "mass/element_mass", "cg/location", "weight_loads/force", "weight_loads/moment",
                     "fuel_loads/force", "fuel_loads/moment", "point_mass/force", "point_mass/moment", "thrust/force",
                     "thrust/moment", "total_loads/is_sum", "fuel/volumes", "fuel/margin", "fuel/enclosed_area_is_inner_polygon"]
LEVEL_TEXT = ("the real mass, cg, load and fuel components are executed inside the repository's structural groups on generated "
              "configurations; mass, centroid, and the resultant force and moment of every load source about random points are "
              "recomputed from first principles on every execution")
TECHNIQUE = "runtime monitoring: conservation oracles (first-principles mass, centroid, resultant force/moment) on recorded component outputs"


def cases(tier, seed):
    rng = np.random.default_rng(16000 + seed)
    out = []
    n = 80 if tier == "quick" else 2400
    for k in range(n):
        half = "full" if k % 3 == 0 else "left"
        spec = M.random_spec(rng, half=half, nx=int(rng.integers(2, 4)), ny=int(rng.integers(2, 12)))
        npm = int(rng.choice([0, 1, 2, 3, 4]))
        fem = "wingbox" if k % 2 == 0 else "tube"
        out.append(dict(kind="loads", mesh=spec, fem=fem, relief=bool(rng.random() < 0.8), fuel=bool(fem == "wingbox" and rng.random() < 0.8),
                        npm=npm, seed=int(rng.integers(1 << 30)), load_factor=float(np.round(rng.choice([1.0, 2.5, -1.0, rng.uniform(0.2, 4)]), 3)),
                        mrho=float(np.round(10 ** rng.uniform(2.5, 4), 1)), wwr=float(np.round(rng.uniform(1.0, 2.5), 3)),
                        fuel_mass=float(np.round(10 ** rng.uniform(2, 5), 1)), reserve=float(np.round(rng.choice([0.0, rng.uniform(100, 2e4)]), 1)),
                        fuel_density=float(np.round(rng.uniform(700, 850), 1)), fem_origin=float(np.round(rng.uniform(0.1, 0.7), 3)), units=bool(k % 4 == 1),
                        sym_flag=["bool", "numpy_bool", "bool", "int", "bool"][k % 5]))
    # the same resultants through the repository's own structures-only group (SpatialBeamAlone) for every combination of load sources
    n = 16 if tier == "quick" else 320
    for k in range(n):
        half = "full" if k % 3 == 0 else "left"
        spec = M.random_spec(rng, half=half, nx=2, ny=int(rng.integers(3, 8)))
        fem = "wingbox" if k % 4 != 3 else "tube"
        out.append(dict(kind="alone", mesh=spec, fem=fem, relief=bool(k % 2), fuel=bool(fem == "wingbox" and (k // 2) % 2 == 0), npm=int([0, 0, 1, 2][(k // 4) % 4]),
                        seed=int(rng.integers(1 << 30)), load_factor=float(np.round(rng.choice([2.5, -1.0, rng.uniform(0.2, 4)]), 3)),
                        fuel_mass=float(np.round(10 ** rng.uniform(2, 4.5), 1)), _cost=2))
    # enclosed (fuel) area of the wingbox section against the polygon between the inner skin faces and the inner spar faces
    n = 24 if tier == "quick" else 720
    for k in range(n):
        out.append(dict(kind="wingbox_area", ny=int(rng.integers(2, 9)), npts=int(rng.choice([2, 3, 10, 17])), own_airfoil=bool(k % 3 == 0),
                        seed=int(rng.integers(1 << 30)), units=bool(k % 4 == 1)))
    return out


def resultant(points, loads, about):
    F = loads[:, :3].sum(axis=0)
    Mo = np.cross(points - about, loads[:, :3]).sum(axis=0) + loads[:, 3:].sum(axis=0)
    return F, Mo


def run_loads(c, o):
    import openmdao.api as om
    from openaerostruct.structures.spatial_beam_setup import SpatialBeamSetup
    from openaerostruct.structures.spatial_beam_states import SpatialBeamStates
    from openaerostruct.structures.wingbox_fuel_vol_delta import WingboxFuelVolDelta

    rng = np.random.default_rng(c["seed"])
    mesh = M.build(c["mesh"])
    ny = mesh.shape[1]
    sym = c["mesh"]["half"] != "full"
    fem = c["fem"]
    surf = dict(name="wing", symmetry=sym, mesh=mesh, fem_model_type=fem, E=7e10, G=3e10, mrho=c["mrho"], wing_weight_ratio=c["wwr"],
                struct_weight_relief=c["relief"], distributed_fuel_weight=c["fuel"], exact_failure_constraint=False,
                Wf_reserve=c["reserve"], fuel_density=c["fuel_density"])
    surf["yield"] = 3e8
    # the symmetry flag as it arrives from arrays, files or C-style code: any truthy / falsy value, not only the singletons True / False
    flavour = c.get("sym_flag", "bool")
    if flavour == "numpy_bool":
        surf["symmetry"] = np.bool_(sym)
    elif flavour == "int":
        surf["symmetry"] = int(sym)
    if fem == "tube":
        surf["fem_origin"] = c["fem_origin"]
    else:
        for k, v in zoo.WINGBOX_AIRFOIL.items():
            surf[k] = v.copy()
    npm = c["npm"]
    if npm:
        surf["n_point_masses"] = npm
    tags = [fem, "sym" if sym else "full", "npm=%d" % npm, "relief" if c["relief"] else "norelief", "fuel" if c["fuel"] else "nofuel"] + (["inputs_in_other_units"] if c.get("units") else [])
    o.tags = tags
    p = om.Problem(reports=False)
    ivc = om.IndepVarComp()
    ivc.add_output("mesh", val=mesh, units="m")
    A = 10 ** rng.uniform(-3, -1, ny - 1)
    A_int = 10 ** rng.uniform(-2, 0, ny - 1)
    for q, v, u in (("A", A, "m**2"), ("Iy", A**2 * 0.1, "m**4"), ("Iz", A**2 * 0.2, "m**4"), ("J", A**2 * 0.3, "m**4"), ("A_int", A_int, "m**2")):
        ivc.add_output(q, val=v, units=u)
    from openmdao.utils.units import convert_units

    alt = bool(c.get("units"))  # the same SI values supplied through inputs declared in other units (OpenMDAO converts them back)
    U = 1e-7 if alt else 0.0  # the framework's conversion factors carry about nine digits

    def add(name, val, unit):
        au = {"N": "lbf", "kg": "lbm", "m": "ft"}[unit] if alt else unit
        ivc.add_output(name, val=convert_units(np.asarray(val, float), unit, au), units=au)

    add("loads", np.zeros((ny, 6)), "N")
    ivc.add_output("load_factor", val=c["load_factor"])
    add("fuel_mass", c["fuel_mass"], "kg")
    add("fuelburn", c["fuel_mass"] * 0.9, "kg")
    if npm:
        ylo, yhi = mesh[0, :, 1].min(), mesh[0, :, 1].max()
        loc = np.stack([rng.uniform(-2, 3, npm), rng.uniform(ylo, yhi, npm), rng.uniform(-1, 1, npm)], axis=1)
        pm = 10 ** rng.uniform(1, 4, npm)
        th = 10 ** rng.uniform(2, 5, npm) * rng.choice([1.0, 1.0, 0.0], npm)
        add("point_mass_locations", loc, "m")
        add("point_masses", pm, "kg")
        add("engine_thrusts", th, "N")
    p.model.add_subsystem("ivc", ivc, promotes=["*"])
    prom_in = ["mesh", "A", "Iy", "Iz", "J"] + (["A_int"] if fem == "wingbox" else [])
    p.model.add_subsystem("bsetup", SpatialBeamSetup(surface=surf), promotes_inputs=prom_in,
                          promotes_outputs=["nodes", "local_stiff_transformed", "structural_mass", "cg_location", "element_mass"])
    prom = ["local_stiff_transformed", "loads"]
    if c["relief"] or c["fuel"] or npm:
        prom += ["nodes", "load_factor"]
    if c["relief"]:
        prom += ["element_mass"]
    if npm:
        prom += ["point_mass_locations", "point_masses", "engine_thrusts"]
    p.model.add_subsystem("states", SpatialBeamStates(surface=surf), promotes_inputs=sorted(set(prom)), promotes_outputs=["disp"])
    if fem == "wingbox":
        p.model.add_subsystem("fvd", WingboxFuelVolDelta(surface=surf))
        p.model.connect("bsetup.fuel_vols", "fvd.fuel_vols")
        p.model.connect("fuelburn", "fvd.fuelburn")
        if c["fuel"]:
            p.model.connect("bsetup.fuel_vols", "states.fuel_vols")
            p.model.connect("fuel_mass", "states.fuel_mass")
    with warnings.catch_warnings():
        warnings.simplefilter("ignore")
        p.setup()
        p.run_model()
    nodes = np.array(p.get_val("nodes"))
    L = np.linalg.norm(np.diff(nodes, axis=0), axis=1)
    mid = 0.5 * (nodes[1:] + nodes[:-1])
    em_ref = c["mrho"] * A * L * c["wwr"]
    o.close("mass/element_mass", p.get_val("element_mass"), em_ref, rtol=max(1e-12, U))
    o.close("mass/structural_mass", p.get_val("structural_mass"), em_ref.sum() * (2.0 if sym else 1.0), rtol=max(1e-12, U))
    cg = (mid * em_ref[:, None]).sum(axis=0) / em_ref.sum()
    if sym:
        cg[1] = 0.0
    o.close("cg/location", p.get_val("cg_location"), cg, rtol=max(1e-12, U), scale=np.abs(nodes).max())
    span = np.ptp(nodes[:, 1]) + 1.0
    pts = [nodes.mean(axis=0)] + [nodes.mean(axis=0) + rng.normal(size=3) * span for _ in range(2)]
    nontriv = True
    n = c["load_factor"]
    fuel_mass = c["fuel_mass"]
    # stage 0: the case as drawn; stages 1..2: further load cases on the SAME problem (new masses, thrusts - all engines off in one of
    # them -, load factor, fuel mass): every load source must sum to the CURRENT load, whatever was evaluated before
    for stage in range(3):
        if stage:
            n = float(np.round(rng.uniform(-1.0, 3.0), 3))
            fuel_mass = float(c["fuel_mass"] * rng.uniform(0.2, 1.5))
            p.set_val("load_factor", n)
            p.set_val("fuel_mass", fuel_mass, units="kg")
            p.set_val("loads", np.zeros((ny, 6)), units="N")
            if npm:
                pm = 10 ** rng.uniform(1, 4, npm)
                th = np.zeros(npm) if stage == c.get("off_stage", 1) else 10 ** rng.uniform(2, 5, npm) * rng.choice([1.0, 1.0, 0.0], npm)
                p.set_val("point_masses", pm, units="kg")
                p.set_val("engine_thrusts", th, units="N")
            with warnings.catch_warnings():
                warnings.simplefilter("ignore")
                p.run_model()
            o.count("later_load_cases_on_one_problem")
        total_ref = np.zeros((ny, 6))
        if c["relief"]:
            ld = np.array(p.get_val("states.struct_weight_loads"))
            total_ref += ld
            W = em_ref * G0 * n
            fs = np.abs(W).sum()
            for P in pts:
                F, Mo = resultant(nodes, ld, P)
                o.close("weight_loads/force", F, [0, 0, -W.sum()], rtol=max(1e-11, U), scale=fs)
                Mref = np.cross(mid - P, np.stack([0 * W, 0 * W, -W], axis=1)).sum(axis=0)
                o.close("weight_loads/moment", Mo, Mref, rtol=max(1e-11, U), scale=fs * span)
            # every node carries half the weight of each adjacent element
            fz = np.zeros(ny)
            fz[:-1] -= W / 2
            fz[1:] -= W / 2
            o.close("weight_loads/nodal_share", ld[:, 2], fz, rtol=max(1e-11, U), scale=np.abs(W).max())
            o.close("weight_loads/no_inplane_force", ld[:, :2], 0.0, rtol=0, atol=0)
        vols_ref = A_int * L
        if fem == "wingbox":
            o.close("fuel/volumes", p.get_val("bsetup.fuel_vols"), vols_ref, rtol=max(1e-12, U))
            req = (c["fuel_mass"] * 0.9 + c["reserve"]) / c["fuel_density"]
            if sym:
                req /= 2.0
            o.close("fuel/margin", p.get_val("fvd.fuel_vol_delta"), vols_ref.sum() - req, rtol=max(1e-12, U), scale=max(vols_ref.sum(), req))
        if c["fuel"]:
            ld = np.array(p.get_val("states.fuel_weight_loads")).real
            total_ref += ld
            Wt = (fuel_mass + c["reserve"]) * G0 * n * (0.5 if sym else 1.0)
            W = vols_ref / vols_ref.sum() * Wt
            fs = np.abs(W).sum()
            for P in pts:
                F, Mo = resultant(nodes, ld, P)
                o.close("fuel_loads/force", F, [0, 0, -Wt], rtol=max(1e-11, U), scale=fs)
                Mref = np.cross(mid - P, np.stack([0 * W, 0 * W, -W], axis=1)).sum(axis=0)
                o.close("fuel_loads/moment", Mo, Mref, rtol=max(1e-11, U), scale=fs * span)
        if npm:
            ld = np.array(p.get_val("states.loads_from_point_masses"))
            total_ref += ld
            Fp = np.stack([0 * pm, 0 * pm, -pm * G0 * n], axis=1)
            fs = np.abs(Fp).sum()
            for P in pts:
                F, Mo = resultant(nodes, ld, P)
                o.close("point_mass/force", F, Fp.sum(axis=0), rtol=max(1e-11, U), scale=fs)
                o.close("point_mass/moment", Mo, np.cross(loc - P, Fp).sum(axis=0), rtol=max(1e-11, U), scale=fs * span * 3)
            ld = np.array(p.get_val("states.loads_from_thrusts"))
            total_ref += ld
            Ft = np.stack([-th, 0 * th, 0 * th], axis=1)
            fs = max(np.abs(Ft).sum(), 1e-300)
            for P in pts:
                F, Mo = resultant(nodes, ld, P)
                o.close("thrust/force", F, Ft.sum(axis=0), rtol=max(1e-11, U), scale=fs, atol=1e-300)
                o.close("thrust/moment", Mo, np.cross(loc - P, Ft).sum(axis=0), rtol=max(1e-11, U), scale=fs * span * 3, atol=1e-300)
        ext = rng.normal(size=(ny, 6)) * 1e3
        p.set_val("loads", ext, units="N")
        with warnings.catch_warnings():
            warnings.simplefilter("ignore")
            p.run_model()
        tl = np.array(p.get_val("states.total_loads"))
        o.close("total_loads/is_sum", tl, total_ref + ext, rtol=max(1e-12, U), scale=max(np.abs(total_ref).max(), 1e3))
    o.nontrivial = nontriv
    o.info = dict(ny=ny, mass=float(em_ref.sum()))


def run_alone(c, o):
    rng = np.random.default_rng(c["seed"])
    sym = c["mesh"]["half"] != "full"
    sd = dict(name="wing", symmetry=sym, mesh=c["mesh"], fem_model_type=c["fem"], struct_weight_relief=c["relief"], distributed_fuel_weight=c["fuel"],
              exact_failure_constraint=False)
    case = dict(surface=sd, load_factor=c["load_factor"], fuel_mass=c["fuel_mass"])
    npm = c["npm"]
    if npm:
        sd["n_point_masses"] = npm
        b2 = c["mesh"]["span"] / 2
        case.update(point_masses=[float(x) for x in 10 ** rng.uniform(1, 3.5, npm)], engine_thrusts=[float(x) for x in 10 ** rng.uniform(2, 4.5, npm)],
                    point_mass_locations=[[float(rng.uniform(-1, 2)), float(rng.uniform(-0.9, -0.1) * b2), float(rng.uniform(-0.5, 0.5))] for _ in range(npm)])
    prob = zoo.build_struct(case)
    ext = np.array(prob.get_val("loads"))
    zoo.run(prob)
    surf = prob._oas_surfaces[0]
    tl = np.array(prob.get_val("struct_states.total_loads"))
    n = c["load_factor"]
    half = 0.5 if sym else 1.0
    Fz = 0.0
    if c["relief"]:
        Fz -= float(np.ravel(prob.get_val("structural_mass"))[0]) * half * G0 * n
    if c["fuel"]:
        Fz -= (c["fuel_mass"] + surf["Wf_reserve"]) * half * G0 * n
    Fx = 0.0
    if npm:
        Fz -= sum(case["point_masses"]) * G0 * n
        Fx -= sum(case["engine_thrusts"])
    own = (tl - ext)[:, :3].sum(axis=0)
    fs = max(abs(Fz), abs(Fx), 1.0)
    o.tags = ["alone", c["fem"], "sym" if sym else "full", "relief" if c["relief"] else "norelief", "fuel" if c["fuel"] else "nofuel", "npm=%d" % npm]
    o.close("alone/net_inertial_and_thrust_force", own, [Fx, 0.0, Fz], rtol=1e-10, scale=fs,
            what="force resultant of total_loads - external loads in SpatialBeamAlone at load factor %g" % n)
    o.nontrivial = bool(c["relief"] or c["fuel"] or npm)


def run_wingbox_area(c, o):
    """fuel_vols = A_int x element length presupposes that A_int is the area enclosed by the inner faces of skins and spars.  The
    component's closed form (trapezoids minus 2 t_skin, minus spar strips over the full section height) differs from the polygon
    between the inner faces only in the four corner overlaps and in the change of height across a spar thickness; both are bounded
    below, so the comparison is exact up to that bound."""
    import openmdao.api as om
    from openaerostruct.structures.section_properties_wingbox import SectionPropertiesWingbox

    rng = np.random.default_rng(c["seed"])
    ny = c["ny"]
    if c["own_airfoil"]:
        n = c["npts"]
        xu = np.sort(rng.uniform(0.08, 0.7, n))
        xu[0], xu[-1] = rng.uniform(0.08, 0.2), rng.uniform(0.55, 0.7)
        xu = np.sort(xu)
        xl = xu.copy() if rng.random() < 0.5 else np.concatenate([[xu[0]], np.sort(rng.uniform(xu[0], xu[-1], n - 2)), [xu[-1]]])
        yu = rng.uniform(0.04, 0.07, n)
        yl = -rng.uniform(0.03, 0.07, n)
        orig = float(np.max(yu) - np.min(yl)) * float(rng.uniform(0.9, 1.3))
    else:
        W = zoo.WINGBOX_AIRFOIL
        xu, xl, yu, yl = (W[k].copy() for k in ("data_x_upper", "data_x_lower", "data_y_upper", "data_y_lower"))
        orig = 0.12
    surf = dict(name="wing", mesh=np.zeros((2, ny, 3)), data_x_upper=xu, data_x_lower=xl, data_y_upper=yu, data_y_lower=yl,
                original_wingbox_airfoil_t_over_c=orig)
    chord = 10 ** rng.uniform(-0.5, 1.0, ny - 1)
    sw = chord * rng.uniform(1.0, 1.6, ny - 1)
    toc = rng.uniform(0.06, 0.2, ny - 1)
    hmin = (np.min(yu) - np.max(yl)) * sw * toc / orig
    ts = hmin * rng.uniform(0.01, 0.08, ny - 1)
    tsp = hmin * rng.uniform(0.01, 0.15, ny - 1)
    if rng.random() < 0.3:
        ts[0] = tsp[0]
    um, fm = ("inch", 0.0254) if c.get("units") else ("m", 1.0)
    p = om.Problem(reports=False)
    ivc = p.model.add_subsystem("ivc", om.IndepVarComp(), promotes=["*"])
    ivc.add_output("streamwise_chords", sw / fm, units=um)
    ivc.add_output("fem_chords", chord / fm, units=um)
    ivc.add_output("fem_twists", rng.uniform(-5, 5, ny - 1), units="deg")
    ivc.add_output("spar_thickness", tsp / fm, units=um)
    ivc.add_output("skin_thickness", ts / fm, units=um)
    ivc.add_output("t_over_c", toc)
    p.model.add_subsystem("sec", SectionPropertiesWingbox(surface=surf), promotes=["*"])
    with warnings.catch_warnings():
        warnings.simplefilter("ignore")
        p.setup()
        p.run_model()
    A_int = np.array(p.get_val("A_int", units="m**2"))
    A_enc = np.array(p.get_val("A_enc", units="m**2"))
    A = np.array(p.get_val("A", units="m**2"))
    ref = np.zeros(ny - 1)
    bound = np.zeros(ny - 1)
    gross = np.zeros(ny - 1)
    for i in range(ny - 1):
        X_u, X_l = xu * chord[i], xl * chord[i]
        Y_u, Y_l = yu * sw[i] * toc[i] / orig, yl * sw[i] * toc[i] / orig
        a, b = max(X_u[0], X_l[0]) + tsp[i], min(X_u[-1], X_l[-1]) - tsp[i]
        xs = np.unique(np.concatenate([np.linspace(a, b, 4001), X_u[(X_u > a) & (X_u < b)], X_l[(X_l > a) & (X_l < b)]]))
        h = (np.interp(xs, X_u, Y_u) - ts[i]) - (np.interp(xs, X_l, Y_l) + ts[i])
        ref[i] = np.trapezoid(h, xs)
        gross[i] = np.trapezoid(np.interp(xs, X_u, Y_u) - np.interp(xs, X_l, Y_l), xs)
        slope = np.max(np.abs(np.diff(Y_u) / np.diff(X_u))) + np.max(np.abs(np.diff(Y_l) / np.diff(X_l))) if len(X_u) > 1 else 0.0
        bound[i] = 4.0 * ts[i] * tsp[i] + slope * tsp[i] ** 2
    o.tags = ["wingbox_area", "own_airfoil" if c["own_airfoil"] else "sc2_0612"]
    for i in range(ny - 1):
        o.le("fuel/enclosed_area_is_inner_polygon", abs(A_int[i] - ref[i]), 1.5 * bound[i] + 1e-12 * gross[i],
             what="A_int of element %d vs the area between the inner skin and spar faces (chord %.3g m, t_skin %.3g, t_spar %.3g; corner-overlap bound %.3g)"
             % (i, chord[i], ts[i], tsp[i], bound[i]), A_int=float(A_int[i]), polygon=float(ref[i]))
        # the mid-line area used for torsion encloses the internal one
        o.le("fuel/internal_area_within_midline_area", A_int[i] - A_enc[i], 0.0, what="A_int <= A_enc of element %d" % i, A_int=float(A_int[i]), A_enc=float(A_enc[i]))
    o.nontrivial = True
    o.info = dict(ny=ny, rel_bound=float(np.max(bound / ref)))


def run_case(c):
    o = Obs()
    if c["kind"] == "alone":
        run_alone(c, o)
    elif c["kind"] == "wingbox_area":
        run_wingbox_area(c, o)
    else:
        run_loads(c, o)
    return o


# ---------------------------------------------------------------------------------------------- suite workload
# second workload source: the repository's own tests run under the monitor plugin (oasverif/plugin.py, oasverif/monitors.py);
# only the monitors that serve this property decide here
_cases_generated = cases
_run_case_generated = run_case


def cases(tier, seed):
    return _cases_generated(tier, seed) + [dict(kind="suite", tier=tier, _cost=200)]


def run_case(c):
    if c["kind"] != "suite":
        return _run_case_generated(c)
    from .. import suite

    o = Obs()
    suite.observe(o, "C16", c.get("tier", "quick"))
    return o
