"""C17 - performance and flight-condition functionals satisfy their defining identities."""
import warnings

import numpy as np

from ..obs import Obs
from .. import meshes as M
from .. import zoo

G0 = 9.80665

LEVEL = "exploration"
RULE = ("cases = (perf) the repository's TotalPerformance group (1-3 surfaces, symmetric or not, summed or user-specified "
        "reference area) fed with random coefficients, areas, masses, cg locations, force fields and flight conditions in "
        "physical ranges, including a case constructed so that lift equals weight exactly; (aeroperf) TotalAeroPerformance; "
        "(insitu) converged AeroPoint / AerostructPoint models; (atmos) AtmosGroup on altitude ladders over the tabulated "
        "range.  Every output is recomputed from its defining formula.  Non-trivial = all identities of the kind evaluated "
        "on non-degenerate values")
ASSUMPTIONS = ["defining formulas as stated in the property", "ideal gas R=287.053 J/kg/K, gamma=1.4 (tables carry 4-6 digits: 2e-3 tolerance)"]
REQUIRED_FAMILIES = ["perf/CL_area_weighted", "perf/CD_area_weighted", "perf/L_is_qSCL", "perf/D_is_qSCD", "perf/S_ref_total", "perf/total_weight",
                     "perf/L_equals_W", "perf/L_equals_W_zero_iff_L_eq_W", "perf/breguet", "perf/cg", "perf/M", "perf/CM",
                     "atmos/v_is_M_a", "atmos/reynolds", "atmos/speed_of_sound", "atmos/ideal_gas", "atmos/continuity"]
LEVEL_TEXT = ("the real functional groups are executed on generated inputs and inside converged analyses and every output is "
              "recomputed from the formula the property states; the atmosphere model is swept over its tabulated range and "
              "checked for mutual consistency and continuity")
TECHNIQUE = "runtime monitoring: defining-identity oracles on recorded functional outputs + consistency/continuity sweep of the atmosphere tables"


def cases(tier, seed):
    rng = np.random.default_rng(17000 + seed)
    out = []
    n = 80 if tier == "quick" else 2400
    for k in range(n):
        out.append(dict(kind="perf", nsurf=int(rng.choice([1, 2, 3])), sym=[True, False, "mixed"][k % 3], user_sref=bool((k // 3) % 2), seed=int(rng.integers(1 << 30)),
                        aero_only=bool(k % 4 == 3), lw=bool(k % 5 == 0), units=bool(k % 3 == 1)))
    n = 8 if tier == "quick" else 120
    for k in range(n):
        nsurf = int(rng.choice([1, 2]))
        symc = bool(k % 2)
        surfs = []
        for s in range(nsurf):
            spec = M.random_spec(rng, half="left" if symc else "full", nx=int(rng.integers(2, 4)), ny=int(rng.integers(3, 7)))
            spec["offset"] = [4.0 * s, 0.0, 0.4 * s]
            surfs.append(dict(name="s%d" % s, symmetry=symc, mesh=spec, with_viscous=True, CD0=0.01, CL0=0.02 * s,
                              fem_model_type="tube" if (k + s) % 2 else "wingbox"))
        out.append(dict(kind="insitu", group="as" if k % 2 else "aero", surfaces=surfs, user_sref=bool(k % 4 == 0),
                        flow=dict(alpha=float(np.round(rng.uniform(0, 8), 2)), v=float(rng.uniform(60, 240)), rho=float(rng.uniform(0.3, 1.2)),
                                  Mach_number=0.5, re=1e6, cg=[float(x) for x in np.round(rng.uniform(-1, 2, 3), 3)]), _cost=6))
    nlad = 4 if tier == "quick" else 48
    for k in range(nlad):
        out.append(dict(kind="atmos", n=1000 if tier == "quick" else 12000, lo_frac=k / nlad, hi_frac=(k + 1) / nlad,
                        Mach=float(np.round(rng.uniform(0.05, 0.95), 3)), _cost=4))
    return out


def run_perf(c, o):
    import openmdao.api as om
    from openmdao.utils.units import convert_units
    from openaerostruct.functionals.total_performance import TotalPerformance
    from openaerostruct.functionals.total_aero_performance import TotalAeroPerformance

    rng = np.random.default_rng(c["seed"])
    ns = c["nsurf"]
    syms = [bool(rng.integers(2)) for _ in range(ns)] if c["sym"] == "mixed" else [bool(c["sym"])] * ns
    surfaces = []
    data = []
    p = om.Problem(reports=False)
    ivc = om.IndepVarComp()
    for s in range(ns):
        nx, ny = int(rng.integers(2, 5)), int(rng.integers(2, 8))
        name = "s%d" % s
        surfaces.append(dict(name=name, symmetry=syms[s], mesh=np.zeros((nx, ny, 3))))
        # the Breguet exponent R CT CD / (a M CL) must stay in a physical range: positive lift for the aerostructural functionals
        d = dict(CL=rng.uniform(-0.3, 1.2) if c["aero_only"] else rng.uniform(0.15, 1.2), CD=rng.uniform(0.005, 0.08), S_ref=10 ** rng.uniform(0, 2.5), structural_mass=10 ** rng.uniform(1, 4.5),
                 cg_location=rng.uniform(-3, 3, 3), b_pts=np.cumsum(rng.uniform(0.2, 1.5, (nx - 1, ny, 3)), axis=1) + rng.uniform(-2, 2, 3),
                 widths=rng.uniform(0.3, 2.0, ny - 1), chords=rng.uniform(0.5, 3.0, ny), sec_forces=rng.normal(size=(nx - 1, ny - 1, 3)) * 10 ** rng.uniform(1, 4))
        data.append(d)
        un = dict(CL=None, CD=None, S_ref="m**2", structural_mass="kg", cg_location="m", b_pts="m", widths="m", chords="m", sec_forces="N")
        for k, v in d.items():
            if c["aero_only"] and k in ("structural_mass", "cg_location"):
                continue
            u_ = un[k]
            if c.get("units") and u_ is not None:
                # the same SI value supplied through an input declared in another unit (OpenMDAO converts it back)
                alt_ = {"m**2": "ft**2", "kg": "lbm", "m": "ft", "N": "lbf"}[u_]
                v, u_ = convert_units(np.asarray(v, float), u_, alt_), alt_
            ivc.add_output(name + "_" + k, val=v, units=u_)
    fl = dict(v=10 ** rng.uniform(1, 2.5), rho=10 ** rng.uniform(-1, 0.2), CT=10 ** rng.uniform(-5, -3.5), R=10 ** rng.uniform(5, 7.2),
              speed_of_sound=rng.uniform(280, 345), Mach_number=rng.uniform(0.2, 0.9), W0=10 ** rng.uniform(2, 5.3), load_factor=float(rng.choice([1.0, 2.5, rng.uniform(0.5, 3)])),
              empty_cg=rng.uniform(-2, 2, 3), cg=rng.uniform(-2, 2, 3), S_ref_total=10 ** rng.uniform(0.5, 2.7))
    q = 0.5 * fl["rho"] * fl["v"] ** 2
    Stot = fl["S_ref_total"] if c["user_sref"] else sum(d["S_ref"] for d in data)
    if not c["aero_only"]:
        # keep the Breguet exponent R CT CD / (a M CL) inside the domain of the performance model (<= 5: fuel burn up to ~150 x the
        # aircraft's mass); beyond it the cg = .../(W/g - fuelburn) of the repository cancels catastrophically (see zoo.run)
        CLt_ = sum(d["CL"] * d["S_ref"] for d in data) / Stot
        CDt_ = sum(d["CD"] * d["S_ref"] for d in data) / Stot
        ex_ = fl["R"] * fl["CT"] / fl["speed_of_sound"] / fl["Mach_number"] * CDt_ / CLt_
        if ex_ > 5.0:
            fl["R"] = fl["R"] * 5.0 / ex_
    if c["lw"] and not c["aero_only"]:
        # choose W0 such that lift equals weight exactly (positive total lift needed)
        L = q * sum(d["CL"] * d["S_ref"] for d in data)
        ms = sum(d["structural_mass"] for d in data)
        CLt = sum(d["CL"] * d["S_ref"] for d in data) / Stot
        CDt = sum(d["CD"] * d["S_ref"] for d in data) / Stot
        k = np.exp(fl["R"] * fl["CT"] / fl["speed_of_sound"] / fl["Mach_number"] * CDt / CLt) if CLt > 0 else None
        if k is not None and L > 0:
            # (ms + (W0+ms)(k-1) + W0) g n = L  ->  (W0 + ms) k = L/(g n)
            W0 = L / (G0 * fl["load_factor"]) / k - ms
            if W0 > 0:
                fl["W0"] = W0
            else:
                c = dict(c, lw=False)
        else:
            c = dict(c, lw=False)
    un = dict(v="m/s", rho="kg/m**3", CT="1/s", R="m", speed_of_sound="m/s", Mach_number=None, W0="kg", load_factor=None, empty_cg="m", cg="m", S_ref_total="m**2")
    aero_keys = ("v", "rho", "cg") + (("S_ref_total",) if c["user_sref"] else ())
    for k, v in fl.items():
        if k == "S_ref_total" and not c["user_sref"]:
            continue
        if c["aero_only"] and k not in aero_keys:
            continue
        if not c["aero_only"] and k == "cg":
            continue
        u_ = un[k]
        if c.get("units") and u_ is not None:
            alt_ = {"m/s": "ft/s" if k == "speed_of_sound" else "knot", "kg/m**3": "slug/ft**3", "1/s": "1/h", "m": "km" if k == "R" else "ft", "kg": "lbm", "m**2": "ft**2"}[u_]
            v, u_ = convert_units(np.asarray(v, float), u_, alt_), alt_
        ivc.add_output(k, val=v, units=u_)
    p.model.add_subsystem("ivc", ivc, promotes=["*"])
    if c["aero_only"]:
        p.model.add_subsystem("tp", TotalAeroPerformance(surfaces=surfaces, user_specified_Sref=c["user_sref"]), promotes_inputs=["*"])
    else:
        p.model.add_subsystem("tp", TotalPerformance(surfaces=surfaces, user_specified_Sref=c["user_sref"]), promotes_inputs=["*"])
    with warnings.catch_warnings():
        warnings.simplefilter("ignore")
        p.setup()
        p.run_model()
    g = lambda n: np.array(p.get_val("tp." + n)).copy()  # noqa: E731
    tags = ["nsurf=%d" % ns, "sym=" + "".join("S" if x else "F" for x in syms), "user_sref" if c["user_sref"] else "summed_sref", "aero_only" if c["aero_only"] else "aerostruct"]
    if c.get("units"):
        tags.append("inputs_in_other_units")
    o.tags = tags
    U = 1e-7 if c.get("units") else 0.0  # the framework's unit-conversion factors carry about nine digits
    SCL = sum(d["CL"] * d["S_ref"] for d in data)
    SCD = sum(d["CD"] * d["S_ref"] for d in data)
    if not c["user_sref"]:
        o.close("perf/S_ref_total", g("S_ref_total"), Stot, rtol=max(1e-13, U))
    o.close("perf/CL_area_weighted", g("CL"), SCL / Stot, rtol=max(1e-12, U), atol=1e-15)
    o.close("perf/CD_area_weighted", g("CD"), SCD / Stot, rtol=max(1e-12, U))
    o.close("perf/L_is_qSCL", g("L"), q * Stot * (SCL / Stot), rtol=max(1e-12, U), atol=1e-12)
    o.close("perf/D_is_qSCD", g("D"), q * Stot * (SCD / Stot), rtol=max(1e-12, U))
    # moment about the cg and CM
    cg_used = g("cg") if not c["aero_only"] else np.array(fl["cg"])
    Mt = np.zeros(3)
    mscale = 0.0
    for s, d in zip(surfaces, data):
        pts = 0.5 * (d["b_pts"][:, 1:] + d["b_pts"][:, :-1])
        m = np.cross(pts - cg_used, d["sec_forces"]).reshape(-1, 3).sum(axis=0)
        mscale += np.abs(np.cross(pts - cg_used, d["sec_forces"])).sum()
        if s["symmetry"]:
            m = np.array([0.0, 2 * m[1], 0.0])
        Mt += m
    d0 = data[0]
    pc = 0.5 * (d0["chords"][1:] + d0["chords"][:-1])
    MAC = (pc**2 * d0["widths"]).sum() / d0["S_ref"] * (2.0 if syms[0] else 1.0)
    Mname = "moment.M" if not c["aero_only"] else "moment.M"
    o.close("perf/M", g(Mname), Mt, rtol=max(1e-11, U), scale=mscale)
    o.close("perf/CM", g("CM"), Mt / (q * Stot * MAC), rtol=max(1e-11, U), scale=mscale / (q * Stot * MAC))
    if not c["aero_only"]:
        ms = sum(d["structural_mass"] for d in data)
        CLt, CDt = SCL / Stot, SCD / Stot
        fb = (fl["W0"] + ms) * (np.exp(fl["R"] * fl["CT"] / fl["speed_of_sound"] / fl["Mach_number"] * CDt / CLt) - 1)
        o.close("perf/breguet", g("fuelburn"), fb, rtol=max(1e-11, U))
        W = (ms + fb + fl["W0"]) * G0 * fl["load_factor"]
        o.close("perf/total_weight", g("total_weight"), W, rtol=max(1e-11, U))
        o.close("perf/L_equals_W", g("L_equals_W"), 1 - q * SCL / W, rtol=max(1e-11, U), atol=1e-12)
        if c["lw"]:
            o.close("perf/L_equals_W_zero_iff_L_eq_W", g("L_equals_W"), 0.0, rtol=0, atol=max(1e-10, U), what="lift equals weight by construction")
            o.close("perf/L_equals_W_zero_iff_L_eq_W", g("L"), g("total_weight"), rtol=max(1e-10, U))
        cgm = (fl["W0"] * fl["empty_cg"] + sum(d["structural_mass"] * d["cg_location"] for d in data)) / (fl["W0"] + ms)
        # (W/g - fuelburn) loses fb/(W0+ms) digits
        o.close("perf/cg", g("cg"), cgm, rtol=max(1e-11, U), scale=3.0 * (1.0 + fb / (fl["W0"] + ms)))
    o.nontrivial = True


def run_insitu(c, o):
    """identities between the outputs of converged public groups"""
    if c["group"] == "aero":
        prob = zoo.build_aero(dict(surfaces=c["surfaces"], flow=c["flow"]), geom=False)
        zoo.run(prob)
        pt = "aero"
        states = "aero.aero_states"
    else:
        f = {k: v for k, v in c["flow"].items() if k != "cg"}
        prob = zoo.build_as(dict(surfaces=c["surfaces"], flow=f))
        zoo.run(prob)
        pt = "AS_point_0"
        states = "AS_point_0.coupled.aero_states"
    g = lambda n: zoo.get(prob, pt + "." + n)  # noqa: E731
    surfaces = prob._oas_surfaces
    fl = c["flow"]
    q = 0.5 * fl["rho"] * fl["v"] ** 2
    S = [float(np.ravel(g(("" if c["group"] == "aero" else "coupled.") + s["name"] + ".S_ref"))[0]) for s in surfaces]
    CL = [float(np.ravel(g(s["name"] + "_perf.CL"))[0]) for s in surfaces]
    CD = [float(np.ravel(g(s["name"] + "_perf.CD"))[0]) for s in surfaces]
    Stot = sum(S)
    o.close("insitu/S_ref_total", g("total_perf.S_ref_total"), Stot, rtol=1e-12)
    o.close("insitu/CL", g("CL"), sum(a * b for a, b in zip(CL, S)) / Stot, rtol=1e-12, atol=1e-15)
    o.close("insitu/CD", g("CD"), sum(a * b for a, b in zip(CD, S)) / Stot, rtol=1e-12)
    o.close("insitu/L", g("total_perf.L"), q * Stot * float(np.ravel(g("CL"))[0]), rtol=1e-12)
    o.close("insitu/D", g("total_perf.D"), q * Stot * float(np.ravel(g("CD"))[0]), rtol=1e-12)
    for s, cl, cd in zip(surfaces, CL, CD):
        n = s["name"]
        # surface coefficients: CL = CL0 + CL1, CD = CD0 + CDi + CDv + CDw
        o.close("insitu/surface_CL", cl, s["CL0"] + float(np.ravel(g(n + "_perf.CL1"))[0]), rtol=1e-12, atol=1e-15)
        o.close("insitu/surface_CD", cd, s["CD0"] + sum(float(np.ravel(g(n + "_perf." + k))[0]) for k in ("CDi", "CDv", "CDw")), rtol=1e-12)
    if c["group"] == "as":
        ms = sum(float(np.ravel(zoo.get(prob, s["name"] + ".structural_mass"))[0]) for s in surfaces)
        A = dict(zoo.AS_FLOW_DEFAULT)
        A.update(f)
        CLt, CDt = float(np.ravel(g("CL"))[0]), float(np.ravel(g("CD"))[0])
        fb = (A["W0"] + ms) * (np.exp(A["R"] * A["CT"] / A["speed_of_sound"] / A["Mach_number"] * CDt / CLt) - 1)
        o.close("insitu/breguet", g("fuelburn"), fb, rtol=1e-11)
        W = (ms + fb + A["W0"]) * G0 * 1.0
        o.close("insitu/L_equals_W", g("L_equals_W"), 1 - q * Stot * CLt / W, rtol=1e-11, atol=1e-12)
    o.nontrivial = True


def run_atmos(c, o):
    import openmdao.api as om
    from openaerostruct.common.atmos_group import AtmosGroup
    from openaerostruct.common import atmos_comp

    alt = np.asarray(atmos_comp.USatm1976Data.alt, float)
    lo, hi = alt.min(), alt.max()
    a0 = lo + (hi - lo) * c["lo_frac"]
    a1 = lo + (hi - lo) * c["hi_frac"]
    hs = np.linspace(a0, a1, c["n"])
    p = om.Problem(reports=False)
    ivc = om.IndepVarComp()
    ivc.add_output("altitude", val=0.0, units="ft")
    ivc.add_output("Mach_number", val=c["Mach"])
    p.model.add_subsystem("ivc", ivc, promotes=["*"])
    p.model.add_subsystem("atmos", AtmosGroup(), promotes=["*"])
    with warnings.catch_warnings():
        warnings.simplefilter("ignore")
        p.setup()
    rows = []
    for h in hs:
        p.set_val("altitude", h, units="ft")
        p.run_model()
        rows.append([float(np.ravel(p.get_val(n, units=u))[0]) for n, u in (("T", "K"), ("P", "Pa"), ("rho", "kg/m**3"), ("speed_of_sound", "m/s"),
                                                                               ("mu", "Pa*s"), ("v", "m/s"), ("re", "1/m"))])
    X = np.array(rows)
    T, P, rho, a, mu, v, re = X.T
    o.true("atmos/finite", bool(np.all(np.isfinite(X))), "non-finite atmosphere output inside the tabulated range")
    o.true("atmos/positive", bool(np.all(X > 0)), "non-positive atmosphere output")
    o.close("atmos/v_is_M_a", v, c["Mach"] * a, rtol=1e-12)
    # evaluated in SI after OpenMDAO's unit conversion, whose factors carry ~9 digits: 1e-7, not round-off
    o.close("atmos/reynolds", re, rho * v / mu, rtol=1e-7)
    # ... and to round-off in the Reynolds component's own units
    rc = p.model.atmos.reynolds
    o.close("atmos/reynolds_native", rc._outputs["re"], rc._inputs["rho"] * rc._inputs["v"] / rc._inputs["mu"], rtol=1e-13)
    o.close("atmos/speed_of_sound", a**2 / (1.4 * 287.053 * T), 1.0, rtol=2e-3)
    o.close("atmos/ideal_gas", P / (rho * 287.053 * T), 1.0, rtol=2e-3)
    # continuity: no isolated jump between successive ladder values (relative to the column scale)
    d = np.abs(np.diff(X, axis=0)) / np.abs(X).max(axis=0)
    dm = d.max(axis=1)
    bad = [k for k in range(1, len(dm) - 1) if dm[k] > 3.0 * max(dm[k - 1], dm[k + 1]) + 1e-9]
    o.true("atmos/continuity", not bad, "isolated jump in the atmosphere outputs at altitude %s ft" % (hs[bad[0]] if bad else None))
    # pressure and density decrease monotonically with altitude
    o.true("atmos/monotone_P_rho", bool(np.all(np.diff(P) < 0) and np.all(np.diff(rho) < 0)), "pressure/density not decreasing with altitude")
    # history on the same problem: altitude and Mach number changed one at a time (a Mach sweep at one flight level, a climb at one
    # Mach number); at every step the identities hold and the outputs equal those of a fresh problem at the same point
    hrng = np.random.default_rng(int(c["lo_frac"] * 1e6) + 17)
    h_, m_ = float(hs[len(hs) // 2]), float(c["Mach"])
    for step in range(12):
        if step % 3 == 0:
            h_ = float(hrng.uniform(a0, a1))
        else:
            m_ = float(np.round(hrng.uniform(0.1, 0.95), 3))
        p.set_val("altitude", h_, units="ft")
        p.set_val("Mach_number", m_)
        p.run_model()
        live = {n: float(np.ravel(p.get_val(n))[0]) for n in ("T", "P", "rho", "speed_of_sound", "mu", "v", "re")}
        f = om.Problem(reports=False)
        iv = om.IndepVarComp()
        iv.add_output("altitude", val=h_, units="ft")
        iv.add_output("Mach_number", val=m_)
        f.model.add_subsystem("ivc", iv, promotes=["*"])
        f.model.add_subsystem("atmos", AtmosGroup(), promotes=["*"])
        with warnings.catch_warnings():
            warnings.simplefilter("ignore")
            f.setup()
            f.run_model()
        fresh = {n: float(np.ravel(f.get_val(n))[0]) for n in live}
        o.close("atmos/history_equals_fresh", [live[n] for n in live], [fresh[n] for n in live], rtol=1e-13, scale=None,
                what="atmosphere outputs after step %d of a history (altitude %.1f ft, Mach %.3f) vs a fresh problem" % (step, h_, m_), tags=["history"])
        o.close("atmos/v_is_M_a", live["v"], m_ * live["speed_of_sound"], rtol=1e-12, tags=["history"])
    o.nontrivial = True
    o.info = dict(alt_range=[float(a0), float(a1)], n=len(hs))


def run_case(c):
    o = Obs()
    {"perf": run_perf, "insitu": run_insitu, "atmos": run_atmos}[c["kind"]](c, o)
    return o


# ---------------------------------------------------------------------------------------------- suite workload
# second workload source: the repository's own tests run under the monitor plugin (oasverif/plugin.py, oasverif/monitors.py);
# only the monitors that serve this property decide here
_cases_generated = cases
_run_case_generated = run_case


def cases(tier, seed):
    return _cases_generated(tier, seed) + [dict(kind="suite", tier=tier, _cost=200)]


def run_case(c):
    if c["kind"] != "suite":
        return _run_case_generated(c)
    from .. import suite

    o = Obs()
    suite.observe(o, "C17", c.get("tier", "quick"))
    return o
