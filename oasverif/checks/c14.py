"""C14 - generated meshes are well-formed, ordered and consistent between half and full.

Post-condition monitors on the real generator functions (generate_mesh, getFullMesh, the multi-section
generator, unify_mesh, MultiSecGeometry with GeomMultiUnification/GeomMultiJoin) over a grid + random sample of
parameters.
"""
import copy
import warnings

import numpy as np

from ..obs import Obs
from .. import meshes as M

LEVEL = "exploration"
RULE = ("cases = grid over (num_x, odd num_y, span/chord cosine blends, rect/CRM variants, offsets) plus seeded random "
        "parameter sets; multi-section cases = random 1-4 sections (symmetric or not, every root position, per-section "
        "ny/span/taper/sweep); unification cases = contiguous harness meshes split at random columns.  A case is "
        "non-trivial when the generator returned a mesh with >= 2 panels and all post-conditions were evaluated; "
        "distinct = distinct case description digests")
ASSUMPTIONS = ["numpy arithmetic", "OpenMDAO executes connected components in data-flow order"]
REQUIRED_FAMILIES = ["gen/shape", "gen/half_is_left_of_full", "gen/getFullMesh", "msec/edges_coincide", "unify/node_for_node", "unify/join_separation"]

TOL = 1e-12


def cases(tier, seed):
    rng = np.random.default_rng(1000 + seed)
    out = []
    nxs = [2, 3, 5, 8] if tier == "quick" else [2, 3, 4, 5, 6, 7, 8]
    nys = [3, 5, 7, 11, 21] if tier == "quick" else list(range(3, 43, 2))
    blends = [0.0, 0.5, 1.0] if tier == "quick" else [0.0, 0.25, 0.5, 0.75, 1.0]
    for wt in ["rect", "CRM", "CRM:jig", "CRM:alpha_2.75", "uCRM_based"]:
        for nx in nxs:
            for ny in nys:
                for sc in blends:
                    cc = blends[(nx + ny) % len(blends)]
                    if wt != "rect" and tier == "quick" and (nx + ny + int(sc * 2)) % 3:
                        continue
                    out.append(dict(kind="gen", wing_type=wt, num_x=nx, num_y=ny, span_cos=sc, chord_cos=cc,
                                    span=10.0, root_chord=1.0, offset=[0.0, 0.0, 0.0]))
    n_rand = 150 if tier == "quick" else 3000
    for _ in range(n_rand):
        out.append(dict(kind="gen", wing_type=str(rng.choice(["rect", "rect", "rect", "CRM", "CRM:jig", "CRM:alpha_2.50", "CRM:alpha_2.75", "CRM:alpha_3.00", "CRM:alpha_3.25", "CRM:alpha_3.50",
                                                  "CRM:alpha_3.75", "CRM:alpha_4.00", "CRM:jig_wind_tunnel", "uCRM_based"])),
                        num_x=int(rng.integers(2, 9)), num_y=int(2 * rng.integers(1, 21) + 1),
                        span_cos=float(rng.random()), chord_cos=float(rng.random()),
                        span=float(10 ** rng.uniform(-1, 2)), root_chord=float(10 ** rng.uniform(-1.5, 1)),
                        offset=[float(x) for x in rng.uniform(-50, 50, 3)]))
    n_ms = 120 if tier == "quick" else 2400
    for k in range(n_ms):
        ns = int(rng.integers(1, 5))
        sym = bool(rng.integers(2))
        out.append(dict(kind="msec", num_sections=ns, symmetry=sym, root_section=int(rng.integers(0, ns)),
                        nx=int(rng.integers(2, 6)), ny=[int(rng.integers(2, 8)) for _ in range(ns)],
                        span=[float(np.round(rng.uniform(0.5, 4.0), 3)) for _ in range(ns)],
                        taper=[float(np.round(rng.uniform(0.3, 1.0), 3)) for _ in range(ns)],
                        sweep=[float(np.round(rng.uniform(-0.3, 0.6), 3)) for _ in range(ns)],
                        root_chord=float(np.round(rng.uniform(0.5, 3.0), 3))))
    n_un = 60 if tier == "quick" else 800
    for k in range(n_un):
        ns = int(rng.integers(1, 5))
        half = str(rng.choice(["left", "full"]))
        group = bool(k % 2 == 0)
        if group and half == "full":
            # Geometry with symmetry off needs an odd number (>=3) of spanwise nodes per section
            nys = [int(2 * rng.integers(1, 4) + 1) for _ in range(ns)]
        else:
            nys = [int(rng.integers(2, 7)) for _ in range(ns)]
        ny = sum(nys) - (ns - 1)
        spec = M.random_spec(rng, half=half, nx=int(rng.integers(2, 5)), ny=ny, odd_full=False)
        if group:
            # through Geometry only flat chords are a documented no-op (see C13 finding rotate_x_nonflat_chord)
            spec.update(camber=0.0, twist_tip_deg=0.0)
        cuts = list(np.cumsum([n - 1 for n in nys])[:-1])
        out.append(dict(kind="unify", mesh=spec, cuts=[int(c) for c in cuts], symmetry=(half == "left"),
                        shift=bool(rng.integers(2)), with_toc=bool(rng.integers(2)), group=group, _cost=3.0))
    n_gm = 24 if tier == "quick" else 320
    for k in range(n_gm):
        ns = int(rng.integers(1, 4))
        trivial = (k % 3 == 0)
        out.append(dict(kind="genmeshes_group", num_sections=ns, symmetry=True, nx=int(rng.integers(2, 4)),
                        ny=[int(rng.integers(2, 6)) for _ in range(ns)],
                        span=[1.0] * ns if trivial else [float(np.round(rng.uniform(0.5, 3.0), 3)) for _ in range(ns)],
                        taper=[1.0] * ns if trivial else [float(np.round(rng.uniform(0.4, 1.0), 3)) for _ in range(ns)],
                        sweep=[0.0] * ns if trivial else [float(np.round(rng.uniform(0.0, 0.5), 3)) for _ in range(ns)],
                        root_chord=1.0, as_list=bool(rng.integers(2)), _cost=3.0))
    return out


# ---------------------------------------------------------------------------------------------- helpers
def well_formed(o, fam, mesh, nx, ny, tags=()):
    ok = o.true(fam + "/shape", mesh.shape == (nx, ny, 3), "shape %s != (%d,%d,3)" % (mesh.shape, nx, ny), tags=tags)
    if not ok:
        return False
    o.true(fam + "/finite", bool(np.all(np.isfinite(mesh))), "non-finite coordinates", tags=tags)
    dx = np.diff(mesh[:, :, 0], axis=0)
    o.true(fam + "/x_increasing_chordwise", bool(np.all(dx > 0)), "x not strictly increasing chordwise (min dx %.3e)" % dx.min(), tags=tags)
    if ny > 1:
        dy = np.diff(mesh[:, :, 1], axis=1)
        o.true(fam + "/y_increasing_spanwise", bool(np.all(dy > 0)), "y not strictly increasing spanwise (min dy %.3e)" % dy.min(), tags=tags)
    return True


def guarded_setup(o, p, family):
    """setup + run of an admissible model; a set-up/run error raised for it is a violation, not a harness error"""
    try:
        with warnings.catch_warnings():
            warnings.simplefilter("ignore")
            p.setup()
            p.run_model()
    except Exception as e:  # noqa: BLE001
        o.true(family, False, "admissible multi-section model could not be set up / run: %s: %s" % (type(e).__name__, str(e)[:300]))
        return False
    o.true(family, True)
    return True


def run_gen(c, o):
    from openaerostruct.geometry.utils import generate_mesh, getFullMesh

    base = dict(num_x=c["num_x"], num_y=c["num_y"], wing_type=c["wing_type"], span_cos_spacing=c["span_cos"],
                chord_cos_spacing=c["chord_cos"])
    rect = c["wing_type"] == "rect"
    if rect:
        base.update(span=c["span"], root_chord=c["root_chord"])
    off = np.array(c["offset"], float)

    def gen(sym, offset=None):
        d = dict(base, symmetry=sym)
        if offset is not None:
            d["offset"] = np.array(offset, float)
        with warnings.catch_warnings():
            warnings.simplefilter("ignore")
            r = generate_mesh(d)
        if rect:
            o.true("gen/return_type", isinstance(r, np.ndarray), "rect generator must return one array")
            return r, None
        o.true("gen/return_type", isinstance(r, tuple) and len(r) == 2, "CRM generator must return (mesh, twist)")
        return r[0], r[1]

    nx, ny = c["num_x"], c["num_y"]
    nh = (ny + 1) // 2
    full, twf = gen(False)
    half, twh = gen(True)
    if not well_formed(o, "gen", full, nx, ny):
        return
    if not well_formed(o, "gen", half, nx, nh):
        return
    scale = np.abs(full).max()
    # half == left part of full, root column on y=0
    o.close("gen/half_is_left_of_full", half, full[:, :nh, :], rtol=TOL, scale=scale)
    o.close("gen/root_on_symmetry_plane", half[:, -1, 1], 0.0, rtol=0, atol=TOL * scale)
    # mirror symmetry of the full mesh about y=0
    mir = full[:, ::-1, :].copy()
    mir[:, :, 1] *= -1
    o.close("gen/mirror_symmetric", full, mir, rtol=TOL, scale=scale)
    # getFullMesh
    o.close("gen/getFullMesh", getFullMesh(left_mesh=half.copy()), full, rtol=TOL, scale=scale)
    right = half[:, ::-1, :].copy()
    right[:, :, 1] *= -1
    o.close("gen/getFullMesh", getFullMesh(right_mesh=right), full, rtol=TOL, scale=scale)
    if rect:
        o.close("gen/span", full[0, -1, 1] - full[0, 0, 1], c["span"], rtol=1e-12)
        o.close("gen/span", -half[0, 0, 1], c["span"] / 2, rtol=1e-12)
        o.close("gen/root_chord", full[-1, nh - 1, 0] - full[0, nh - 1, 0], c["root_chord"], rtol=1e-12)
        o.close("gen/root_chord", full[-1, :, 0] - full[0, :, 0], c["root_chord"], rtol=1e-12)
        o.close("gen/planar", full[:, :, 2], 0.0, rtol=0, atol=0)
    else:
        o.true("gen/crm_twist_len", len(twh) == 2 and len(twf) == 2, "default num_twist_cp=2 must give 2 twist values")
    # a returned mesh belongs to the caller: editing it in place must not change what later calls return
    keep_f, keep_h = full.copy(), half.copy()
    full += 0.37
    half[:, :, 2] -= 1.9
    again_f, _ = gen(False)
    again_h, _ = gen(True)
    o.close("gen/calls_independent", again_f, keep_f, rtol=0, atol=0, what="full mesh generated again after the first result was edited in place")
    o.close("gen/calls_independent", again_h, keep_h, rtol=0, atol=0, what="half mesh generated again after the first result was edited in place")
    full, half = keep_f, keep_h
    # offsets are pure translations
    fo, _ = gen(False, off)
    ho, _ = gen(True, off)
    sc2 = max(scale, np.abs(off).max())
    o.close("gen/offset_pure_translation", fo - full, np.broadcast_to(off, full.shape), rtol=4e-16, scale=sc2, atol=1e-300)
    o.close("gen/offset_pure_translation", ho - half, np.broadcast_to(off, half.shape), rtol=4e-16, scale=sc2, atol=1e-300)
    o.nontrivial = True


def msec_surface(c):
    ns = c["num_sections"]
    return {
        "name": "surface", "is_multi_section": True, "num_sections": ns, "sec_name": ["sec%d" % i for i in range(ns)],
        "symmetry": c["symmetry"], "S_ref_type": "wetted", "root_section": c.get("root_section", ns - 1),
        "taper": np.array(c["taper"]), "span": np.array(c["span"]), "sweep": np.array(c["sweep"]),
        "root_chord": c["root_chord"], "meshes": "gen-meshes", "nx": c["nx"], "ny": np.array(c["ny"]),
        "CL0": 0.0, "CD0": 0.0, "k_lam": 0.05, "c_max_t": 0.303, "with_viscous": False, "with_wave": False, "groundplane": False,
    }


def run_msec(c, o):
    """the wing as drawn, then - in the same process - wings that differ from it in one parameter only (a result remembered from an
    earlier call must not be handed out for a different wing), then the first wing again"""
    msec_checks(c, o)
    for key in ("root_chord", "span", "taper", "sweep"):
        v = dict(c)
        if key == "root_chord":
            v[key] = float(np.round(c[key] * 1.37, 4))
        elif key == "sweep":
            v[key] = [x + 0.07 for x in c[key]]
        else:
            v[key] = [float(np.round(x * 0.83, 4)) for x in c[key]]
        msec_checks(v, o, extra=["variant=" + key])
    msec_checks(c, o, extra=["again"])


def msec_checks(c, o, extra=()):
    from openaerostruct.geometry import geometry_mesh_gen as G

    s = msec_surface(c)
    ns = c["num_sections"]
    sym = c["symmetry"]
    root = ns - 1 if (sym or ns == 1) else c["root_section"]
    n_right = 0 if sym else ns - 1 - root
    tags = ["msec", "sym" if sym else "asym", "right_sections=%d" % n_right] + list(extra)
    o.tags = tags
    mesh, secs = G.generate_mesh(s)
    nx = c["nx"]
    ny = c["ny"]
    o.true("msec/count", len(secs) == ns, "number of section meshes")
    tot = sum(ny) - (ns - 1)
    ok = well_formed(o, "msec", mesh, nx, tot)
    for i, m in enumerate(secs):
        ok = well_formed(o, "msec/section", m, nx, ny[i]) and ok
    if not ok:
        return
    scale = max(np.abs(mesh).max(), 1.0)
    for i in range(ns - 1):
        o.close("msec/edges_coincide", secs[i][:, -1, :], secs[i + 1][:, 0, :], rtol=TOL, scale=scale,
                what="right edge of section %d vs left edge of section %d" % (i, i + 1), right_of_root=bool(i >= root))
    # unified mesh is the stitched concatenation
    cat = np.concatenate([m[:, :-1, :] for m in secs[:-1]] + [secs[-1]], axis=1)
    o.close("msec/unified_is_concatenation", mesh, cat, rtol=TOL, scale=scale)
    # requested per-section span, taper, root chord, root position
    for i, m in enumerate(secs):
        o.close("msec/section_span", m[0, -1, 1] - m[0, 0, 1], c["span"][i], rtol=1e-12, right_of_root=bool(i > root))
        ch = m[-1, :, 0] - m[0, :, 0]
        inboard, outboard = (ch[-1], ch[0]) if i <= root else (ch[0], ch[-1])
        o.close("msec/section_taper", outboard, inboard * c["taper"][i], rtol=1e-12, atol=1e-14, right_of_root=bool(i > root))
    rm = secs[root]
    o.close("msec/root_chord", rm[-1, -1, 0] - rm[0, -1, 0], c["root_chord"], rtol=1e-12)
    o.close("msec/root_at_y0", rm[0, -1, 1], 0.0, rtol=0, atol=1e-13)
    o.nontrivial = True


def split(mesh, cuts):
    edges = [0] + list(cuts) + [mesh.shape[1] - 1]
    return [mesh[:, edges[i]:edges[i + 1] + 1, :].copy() for i in range(len(edges) - 1)]


def run_unify(c, o):
    import openmdao.api as om
    from openaerostruct.geometry.geometry_unification import unify_mesh, GeomMultiUnification
    from openaerostruct.geometry.geometry_group import MultiSecGeometry

    mesh = M.build(c["mesh"])
    parts = split(mesh, c["cuts"])
    ns = len(parts)
    nys = [p.shape[1] for p in parts]
    o.tags = ["unify", "unequal_ny" if len(set(nys)) > 1 else "equal_ny", "toc" if c["with_toc"] else "notoc"]
    secs = [{"mesh": p.copy(), "name": "sec%d" % i} for i, p in enumerate(parts)]
    before = [p.copy() for p in parts]
    scale = np.abs(mesh).max()
    for shift in (True, False):
        u = unify_mesh(secs, shift_uni_mesh=shift)
        o.close("unify/node_for_node", u, mesh, rtol=1e-13, scale=scale, what="unify_mesh(shift=%s)" % shift)
    for b, s in zip(before, secs):
        o.true("unify/inputs_untouched", np.array_equal(b, s["mesh"]), "unify_mesh modified a section mesh")
    # the real unification component alone, fed with the section meshes
    p = om.Problem(reports=False)
    ivc = om.IndepVarComp()
    for i, q in enumerate(parts):
        ivc.add_output("sec%d_def_mesh" % i, val=q.copy(), units="m")
    p.model.add_subsystem("ivc", ivc, promotes=["*"])
    p.model.add_subsystem("uni", GeomMultiUnification(sections=secs, surface_name="surface", shift_uni_mesh=c["shift"]),
                          promotes=["*"])
    if guarded_setup(o, p, "unify/component_setup"):
        o.close("unify/component_node_for_node", p.get_val("surface_uni_mesh"), mesh, rtol=1e-13, scale=scale)
    if c["group"]:
        surf = {
            "name": "surface", "is_multi_section": True, "num_sections": ns, "sec_name": ["sec%d" % i for i in range(ns)],
            "symmetry": c["symmetry"], "S_ref_type": "wetted", "meshes": [p.copy() for p in parts],
            "CL0": 0.0, "CD0": 0.0, "k_lam": 0.05, "c_max_t": 0.303, "with_viscous": False, "with_wave": False,
        }
        if c["with_toc"]:
            surf["t_over_c_cp"] = [np.array([0.1 + 0.01 * i]) for i in range(ns)]
        p = om.Problem(reports=False)
        # each shared edge monitored along its own (non-empty) subset of axes
        mrng = np.random.default_rng(int(c["mesh"].get("seed", 0)) + ns)
        masks = [[1, 1, 1], [1, 0, 0], [0, 1, 0], [0, 0, 1], [1, 1, 0], [1, 0, 1], [0, 1, 1]]
        dc = [np.array(masks[int(mrng.integers(len(masks)))] if mrng.random() < 0.7 else [1, 1, 1]) for _ in range(ns - 1)]
        if ns > 1:
            # the joining component alone, fed with section meshes that have been moved apart by known vectors: the reported separation
            # of every shared edge is (left edge of the outboard neighbour) - (right edge of the section), leading then trailing edge point,
            # along the axes selected for that edge
            from openaerostruct.geometry.geometry_multi_join import GeomMultiJoin

            moved = [q + mrng.normal(size=3) * 0.05 * scale for q in parts]
            pj = om.Problem(reports=False)
            ivj = om.IndepVarComp()
            for i, q in enumerate(moved):
                ivj.add_output("sec%d_join_mesh" % i, val=q.copy(), units="m")
            pj.model.add_subsystem("ivc", ivj, promotes=["*"])
            pj.model.add_subsystem("join", GeomMultiJoin(sections=secs, dim_constr=[d.copy() for d in dc]), promotes=["*"])
            if guarded_setup(o, pj, "unify/join_setup"):
                exp = np.concatenate([(moved[e + 1][[0, -1], 0] - moved[e][[0, -1], -1])[:, np.array(dc[e], bool)].ravel() for e in range(ns - 1)])
                got = np.ravel(pj.get_val("section_separation"))
                if got.shape != exp.shape:
                    o.true("unify/join_separation", False, "section_separation has %d entries, expected %d for masks %s" % (got.size, exp.size, [d.tolist() for d in dc]))
                else:
                    o.close("unify/join_separation", got, exp, rtol=1e-13, scale=scale, what="separation of moved sections, masks %s" % [d.tolist() for d in dc])
        p.model.add_subsystem("surface", MultiSecGeometry(surface=surf, joining_comp=(ns > 1), dim_constr=dc,
                                                          shift_uni_mesh=c["shift"]))
        if guarded_setup(o, p, "unify/group_setup"):
            o.close("unify/group_node_for_node", p.get_val("surface.surface_unification.surface_uni_mesh"), mesh, rtol=1e-13,
                    scale=scale, what="MultiSecGeometry unified mesh (shift=%s)" % c["shift"])
            if ns > 1:
                o.close("unify/section_separation_zero", p.get_val("surface.surface_joining.section_separation"), 0.0, rtol=0,
                        atol=1e-13 * scale)
            if c["with_toc"]:
                exp = np.concatenate([np.full(nys[i] - 1, 0.1 + 0.01 * i) for i in range(ns)])
                o.close("unify/t_over_c_concatenated", p.get_val("surface.surface_unification.surface_uni_t_over_c"), exp, rtol=1e-12)
    o.nontrivial = mesh.shape[1] > 2


def run_genmeshes_group(c, o):
    """MultiSecGeometry with "meshes": "gen-meshes": the unified mesh at default design variables must be the
    contiguous generated mesh (unifying C0 sections reproduces the contiguous surface node for node)."""
    import openmdao.api as om
    from openaerostruct.geometry import geometry_mesh_gen as G
    from openaerostruct.geometry.geometry_group import MultiSecGeometry

    s = msec_surface(c)
    if c["as_list"]:
        for k in ("taper", "span", "sweep", "ny"):
            s[k] = [float(x) if k != "ny" else int(x) for x in c[k]]
    trivial = all(x == 1.0 for x in c["span"]) and all(x == 1.0 for x in c["taper"]) and all(x == 0.0 for x in c["sweep"])
    o.tags = ["genmeshes_group", "list" if c["as_list"] else "array", "trivial_params" if trivial else "nontrivial_params"]
    ref, _ = G.generate_mesh(copy.deepcopy(s))
    p = om.Problem(reports=False)
    p.model.add_subsystem("surface", MultiSecGeometry(surface=s))
    if not guarded_setup(o, p, "genmeshes/setup"):
        return
    o.close("genmeshes/unified_equals_generated", p.get_val("surface.surface_unification.surface_uni_mesh"), ref,
            rtol=1e-12, scale=np.abs(ref).max())
    o.nontrivial = True


def run_case(c):
    o = Obs()
    {"gen": run_gen, "msec": run_msec, "unify": run_unify, "genmeshes_group": run_genmeshes_group}[c["kind"]](c, o)
    return o

LEVEL_TEXT = ("post-conditions of the real mesh generators and unification components evaluated on a parameter grid plus "
              "seeded random parameter sets (hundreds quick, thousands thorough); held on what was generated, nothing is proved")
TECHNIQUE = "runtime monitoring: post-condition oracles on generator return values + metamorphic half/full/mirror/translate relations"
