"""C08 - ground effect equals the method of images and vanishes far from the ground."""
import numpy as np

from ..obs import Obs
from .. import meshes as M
from .. import zoo, vlmcompare
from ..refs import refvlm

LEVEL = "exploration"
RULE = ("cases = seeded random symmetric configurations (1-2 surfaces, left or right halves, swept/tapered/dihedral/"
        "cambered, nx 2..4, ny 2..7) x height above ground 0.05..50 spans x alpha -5..12 deg, compared with (a) the "
        "reference VLM with explicit image rings, (b) a free-air run of the repository with explicitly reflected "
        "surfaces; far-field ladders h = 1e2..1e5 spans; rejection of ground effect without symmetry in every list "
        "position; aerostructural points in ground effect.  Non-trivial = non-zero circulations and the ground term "
        "changes the forces by more than 1e-6 relative (or the case is a ladder/rejection case)")
ASSUMPTIONS = ["reference VLM and its image construction (oasverif/refs/refvlm.py)", "numpy.linalg"]
REQUIRED_FAMILIES = ["ground/sec_forces", "ground/aic", "image2/sec_forces", "far/decay", "reject/raises"]
LEVEL_TEXT = ("AeroPoint/AerostructPoint with groundplane=True are executed on generated symmetric configurations and "
              "compared element-wise with an explicit image system (reference solver) and with a free-air run of the "
              "repository on explicitly reflected surfaces; the far-field limit is checked on height ladders")
TECHNIQUE = "runtime monitoring: reference-model oracle with explicit image rings + metamorphic free-air image model + convergence ladder"


def plane(alpha_deg, h):
    a = np.deg2rad(alpha_deg)
    n = np.array([np.sin(a), 0.0, -np.cos(a)])
    return n, h * n


def rand_surfaces(rng, nsurf):
    surfs = []
    for s in range(nsurf):
        half = str(rng.choice(["left", "right"]))
        spec = M.random_spec(rng, half=half, nx=int(rng.integers(2, 5)), ny=int(rng.integers(2, 8)))
        spec["offset"] = [float(np.round(s * rng.uniform(3, 8), 3)), 0.0, float(np.round(s * rng.uniform(0.3, 1.5) * rng.choice([-1, 1]), 3))]
        surfs.append(dict(name="s%d" % s, symmetry=True, groundplane=True, mesh=spec))
    return surfs


def height_for(surfs, alpha, u_spans):
    """height_agl such that the lowest mesh point is u_spans * span above the plane"""
    n, _ = plane(alpha, 1.0)
    dmax = max(float((M.build(s["mesh"]) @ n).max()) for s in surfs)
    span = max(s["mesh"]["span"] for s in surfs)
    return dmax + u_spans * span, span


def cases(tier, seed):
    rng = np.random.default_rng(8000 + seed)
    out = []
    n = 30 if tier == "quick" else 900
    for k in range(n):
        surfs = rand_surfaces(rng, int(rng.choice([1, 2, 3])))
        alpha = float(np.round(rng.uniform(-5, 12), 3))
        if k % 7 == 0:
            alpha = 0.0
        h, span = height_for(surfs, alpha, float(10 ** rng.uniform(np.log10(0.05), np.log10(50))))
        flow = dict(alpha=alpha, beta=0.0, v=float(10 ** rng.uniform(0.5, 2.5)), rho=float(10 ** rng.uniform(-1, 0.2)), height_agl=h)
        np_ = sum((s["mesh"]["nx"] - 1) * (s["mesh"]["ny"] - 1) for s in surfs)
        out.append(dict(kind="ref", surfaces=surfs, flow=flow, _cost=1 + np_ ** 2 / 100.0))
        if k % 2 == 0:
            out.append(dict(kind="image2", surfaces=surfs, flow=flow, _cost=1 + np_ ** 2 / 200.0))
        if k % 5 == 1:
            # the same height supplied through an input in another unit
            out.append(dict(kind="ref", surfaces=surfs, flow=flow, units=dict(height_agl=["ft", "km", "inch"][(k // 5) % 3]),
                            _cost=1 + np_ ** 2 / 100.0))
    # low, pitched configurations: a second surface well below and ahead of / behind the origin, pitched so that it still clears the
    # (tilted) ground plane although its body-axis z lies below -height_agl
    nlow = 6 if tier == "quick" else 120
    for k in range(nlow):
        surfs = rand_surfaces(rng, 2)
        sx = float(rng.choice([-1.0, 1.0]))
        surfs[1]["mesh"]["offset"] = [float(np.round(sx * rng.uniform(5, 10), 3)), 0.0, float(np.round(-rng.uniform(0.8, 2.0), 3))]
        alpha = float(np.round(-sx * rng.uniform(3, 8), 3))
        h, span = height_for(surfs, alpha, float(rng.uniform(0.02, 0.08)))
        zmin = min(float(M.build(s_["mesh"])[..., 2].min()) for s_ in surfs)
        flow = dict(alpha=alpha, beta=0.0, v=50.0, rho=1.0, height_agl=h)
        out.append(dict(kind="ref", surfaces=surfs, flow=flow, low=bool(zmin < -h), _cost=3))
    nl = 4 if tier == "quick" else 90
    for k in range(nl):
        surfs = rand_surfaces(rng, int(rng.choice([1, 2])))
        out.append(dict(kind="far", surfaces=surfs, flow=dict(alpha=float(np.round(rng.uniform(-5, 12), 3)), beta=0.0, v=50.0, rho=1.0)))
    # rejection without symmetry: every position in 1-3 surface lists, aero and aerostruct
    for nsurf in (1, 2, 3):
        for bad in range(nsurf):
            for grp in ("aero", "as"):
                out.append(dict(kind="reject", nsurf=nsurf, bad=bad, group=grp, other_ground=bool((nsurf + bad) % 2)))
    na = 3 if tier == "quick" else 60
    for k in range(na):
        surfs = rand_surfaces(rng, 1)
        zoo.sane_wing(surfs[0]["mesh"])
        surfs[0]["mesh"]["ny"] = max(3, surfs[0]["mesh"]["ny"])
        surfs[0]["fem_model_type"] = "tube" if k % 2 == 0 else "wingbox"
        if surfs[0]["mesh"]["half"] == "right":
            surfs[0]["mesh"]["half"] = "left"  # structural groups assume the root is the last node
        alpha = float(np.round(rng.uniform(0, 8), 3))
        h, span = height_for(surfs, alpha, float(10 ** rng.uniform(np.log10(0.2), np.log10(5))))
        out.append(dict(kind="as_ground", surfaces=surfs, flow=dict(alpha=alpha, v=100.0, rho=1.0, height_agl=h + 0.1 * span), _cost=5))
    return out


def run_ref(c, o):
    prob = zoo.build_aero(dict(surfaces=c["surfaces"], flow=c["flow"], units=c.get("units", {})), geom=False)
    zoo.run(prob)
    surfaces = prob._oas_surfaces
    st = vlmcompare.oas_states(prob, "aero.aero_states", surfaces)
    flow = dict(zoo.FLOW_DEFAULT)
    flow.update(c["flow"])
    ref = vlmcompare.reference(st, surfaces, flow, ground=True)
    tags = ["nsurf=%d" % len(surfaces)] + (["height_in_" + c["units"]["height_agl"]] if c.get("units") else [])
    if c.get("low"):
        tags.append("body_z_below_minus_h")
        o.count("cases_with_body_z_below_minus_height_agl")
    nz = vlmcompare.compare(o, st, ref, "ground", rtol=1e-9, tags=tags)
    free = vlmcompare.reference(st, surfaces, flow, ground=False)
    eff = np.abs(ref["F"] - free["F"]).max() / np.abs(free["F"]).max()
    o.info = dict(ground_effect_rel=float(eff), h=float(flow["height_agl"]))
    o.nontrivial = bool(nz and eff > 1e-6)


def run_image2(c, o):
    """free-air run of the repository itself on real + explicitly reflected surfaces"""
    flow = dict(zoo.FLOW_DEFAULT)
    flow.update(c["flow"])
    n, p0 = plane(flow["alpha"], flow["height_agl"])
    prob = zoo.build_aero(dict(surfaces=c["surfaces"], flow=c["flow"]), geom=False)
    zoo.run(prob)
    surfs2 = []
    for s in c["surfaces"]:
        m = M.build(s["mesh"])
        s_real = dict(s, groundplane=False, mesh=dict(array=m.tolist()))
        s_img = dict(s, groundplane=False, name=s["name"] + "_img", mesh=dict(array=refvlm.reflect_plane(m, n, p0).tolist()))
        surfs2 += [s_real, s_img]
    f2 = {k: v for k, v in c["flow"].items() if k != "height_agl"}
    prob2 = zoo.build_aero(dict(surfaces=surfs2, flow=f2), geom=False)
    zoo.run(prob2)
    for s in c["surfaces"]:
        a = prob.get_val("aero.aero_states.%s_sec_forces" % s["name"])
        b = prob2.get_val("aero.aero_states.%s_sec_forces" % s["name"])
        o.close("image2/sec_forces", a, b, rtol=1e-8, what="ground-effect forces vs free-air real+image model")
        for q in ("CL", "CDi"):
            o.close("image2/" + q, prob.get_val("aero.%s_perf.%s" % (s["name"], q)), prob2.get_val("aero.%s_perf.%s" % (s["name"], q)),
                    rtol=1e-8, atol=1e-12)
    o.nontrivial = True


def run_far(c, o):
    surfs = c["surfaces"]
    free = [dict(s, groundplane=False) for s in surfs]
    p0 = zoo.build_aero(dict(surfaces=free, flow=c["flow"]), geom=False)
    zoo.run(p0)
    F0 = np.concatenate([p0.get_val("aero.aero_states.%s_sec_forces" % s["name"]).ravel() for s in surfs])
    CL0 = float(np.ravel(p0.get_val("aero.CL"))[0])
    span = max(s["mesh"]["span"] for s in surfs)
    hs = [1e2, 1e3, 1e4, 1e5]
    errs = []
    prob = zoo.build_aero(dict(surfaces=surfs, flow=dict(c["flow"], height_agl=1.0)), geom=False)
    for h in hs:
        prob.set_val("height_agl", h * span)
        zoo.run(prob)
        F = np.concatenate([prob.get_val("aero.aero_states.%s_sec_forces" % s["name"]).ravel() for s in surfs])
        errs.append(float(np.abs(F - F0).max() / np.abs(F0).max()))
        o.close("far/CL_converges", float(np.ravel(prob.get_val("aero.CL"))[0]), CL0, rtol=0, atol=max(abs(CL0), 1e-3) * 10.0 / h**2)
    o.info = dict(rel_err_vs_free_air=errs)
    for a, b in zip(errs[:-1], errs[1:]):
        # decay ~ h^-2 (factor 100 per decade); accept >= 30 until round-off floor
        o.true("far/decay", (b <= a / 30.0) or (b < 1e-11), "ground influence does not decay like h^-2: %s" % errs, errs=errs)
    o.le("far/limit", errs[-1], 1e-8, slack=0.0, what="influence at h=1e5 spans")
    o.nontrivial = errs[0] > 1e-9


def run_reject(c, o):
    nsurf, bad = c["nsurf"], c["bad"]
    surfs = []
    for i in range(nsurf):
        sym = (i != bad)
        spec = dict(nx=2, ny=3, half="left" if sym else "full", span=6.0, offset=[4.0 * i, 0.0, 0.5 * i])
        s = dict(name="s%d" % i, symmetry=sym, mesh=spec, groundplane=(i == bad) or c["other_ground"])
        if c["group"] == "as":
            s["fem_model_type"] = "tube"
        surfs.append(s)
    raised = None
    try:
        if c["group"] == "aero":
            zoo.build_aero(dict(surfaces=surfs, flow=dict(height_agl=10.0)), geom=False)
        else:
            zoo.build_as(dict(surfaces=surfs, flow=dict(height_agl=10.0)))
    except Exception as e:  # noqa: BLE001
        raised = e
    o.true("reject/raises", isinstance(raised, ValueError),
           "ground effect on a non-symmetric surface (position %d of %d, %s) was not rejected with ValueError: %r" % (bad, nsurf, c["group"], raised))
    o.nontrivial = True


def run_as_ground(c, o):
    prob = zoo.build_as(dict(surfaces=c["surfaces"], flow=c["flow"]))
    zoo.run(prob)
    surfaces = prob._oas_surfaces
    st = vlmcompare.oas_states(prob, "AS_point_0.coupled.aero_states", surfaces)
    flow = dict(zoo.AS_FLOW_DEFAULT)
    flow.update(c["flow"])
    ref = vlmcompare.reference(st, surfaces, flow, ground=True)
    nz = vlmcompare.compare(o, st, ref, "ground_as", rtol=1e-9)
    disp = prob.get_val("AS_point_0.coupled.s0.disp")
    o.info = dict(max_disp=float(np.abs(disp).max()))
    o.nontrivial = bool(nz and np.abs(disp).max() > 1e-9)


def run_case(c):
    o = Obs()
    {"ref": run_ref, "image2": run_image2, "far": run_far, "reject": run_reject, "as_ground": run_as_ground}[c["kind"]](c, o)
    return o
