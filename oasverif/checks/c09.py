"""C09 - the compressibility correction implements Prandtl-Glauert and is exact at Mach 0."""
import numpy as np

from ..obs import Obs
from .. import meshes as M
from .. import zoo
from ..refs import refvlm

LEVEL = "exploration"
RULE = ("cases = seeded random configurations (1-2 surfaces, full-span with sideslip or symmetric halves, rotational "
        "on/off, nx 2..4, ny 2..7) x Mach 0..0.94 x alpha/beta in +-15 deg: (pg) compressible AeroPoint forces vs the "
        "harness' own rotate/stretch -> reference incompressible VLM -> unscale/rotate-back pipeline; (m0) Mach-0 "
        "identity against the incompressible AeroPoint; (cont) Mach ladders for continuity; (as) compressible "
        "aerostructural point.  Non-trivial = non-zero forces and M>0.05 for pg cases")
ASSUMPTIONS = ["reference VLM (oasverif/refs/refvlm.py)", "Prandtl-Glauert rule as stated in the property"]
REQUIRED_FAMILIES = ["pg/sec_forces", "m0/sec_forces", "cont/no_jump", "cont/M_to_0"]
LEVEL_TEXT = ("compressible AeroPoint/AerostructPoint are executed on generated configurations and Mach numbers and the "
              "sectional forces are compared with an independently coded Prandtl-Glauert pipeline around the reference "
              "VLM; Mach-0 identity and continuity on Mach ladders are observed on the real outputs")
TECHNIQUE = "runtime monitoring: reference-model oracle (own PG transformation + independent VLM) + metamorphic Mach-0 identity + ladder continuity"


def wind_basis(alpha_deg, beta_deg):
    a = np.deg2rad(alpha_deg)
    b = np.deg2rad(beta_deg)
    xw = np.array([np.cos(a) * np.cos(b), -np.sin(b), np.sin(a) * np.cos(b)])  # along the free stream
    zw = np.array([-np.sin(a), 0.0, np.cos(a)])  # lift direction
    yw = np.cross(zw, xw)
    return np.array([xw, yw, zw])


def pg_reference(meshes, sym, flow, rotational):
    R = wind_basis(flow["alpha"], flow.get("beta", 0.0))
    B = np.sqrt(1.0 - flow["Mach_number"] ** 2)
    S = np.array([1.0, B, B])
    mp = [(m @ R.T) * S for m in meshes]
    tied = None
    if any(sym):
        ghosts = []
        for m, s in zip(meshes, sym):
            g = refvlm.mirror_y(m)
            ghosts.append((g @ R.T) * S)

        def tied(s, i, j):
            if not sym[s]:
                return []
            return [(ghosts[s], i, mp[s].shape[1] - 2 - j, 1.0)]

    om = cg = None
    if rotational:
        om = (R @ np.array(flow["omega"], float)) * np.array([1.0, B, B])
        cg = (R @ np.array(flow["cg"], float)) * S
    ref = refvlm.solve(mp, 0.0, 0.0, v=flow["v"], rho=flow["rho"], omega=om, cg=cg, tied=tied)
    Fw = ref["F"] / np.array([B**4, B**3, B**3])
    return Fw @ R, ref


def rand_case(rng, kind):
    sym_case = bool(rng.random() < 0.35)
    nsurf = int(rng.choice([1, 2, 3]))
    surfs = []
    for s in range(nsurf):
        sym = sym_case
        half = str(rng.choice(["left", "right"])) if sym else "full"
        spec = M.random_spec(rng, half=half, nx=int(rng.integers(2, 5)), ny=int(rng.integers(2, 8)), odd_full=False)
        spec["offset"] = [float(np.round(s * rng.uniform(3, 8), 3)), 0.0, float(np.round(s * rng.uniform(0.3, 1.5) * rng.choice([-1, 1]), 3))]
        surfs.append(dict(name="s%d" % s, symmetry=sym, mesh=spec))
    rot = bool(rng.random() < 0.4) and not sym_case
    flow = dict(alpha=float(np.round(rng.uniform(-15, 15), 3)), beta=0.0 if sym_case else float(np.round(rng.uniform(-15, 15), 3)),
                v=float(10 ** rng.uniform(1, 2.5)), rho=float(10 ** rng.uniform(-1, 0.2)),
                Mach_number=float(np.round(rng.uniform(0.0, 0.94), 4)))
    if rot:
        flow["omega"] = [float(x) for x in np.round(rng.uniform(-0.5, 0.5, 3), 4)]
        flow["cg"] = [float(x) for x in np.round(rng.uniform(-2, 2, 3), 3)]
    return dict(kind=kind, surfaces=surfs, flow=flow, rotational=rot, sym=sym_case)


def cases(tier, seed):
    rng = np.random.default_rng(9000 + seed)
    out = []
    n = 40 if tier == "quick" else 1200
    for k in range(n):
        c = rand_case(rng, "pg")
        if k % 10 == 0:
            c["flow"]["Mach_number"] = 0.0
        if k % 10 == 1:
            c["flow"]["alpha"] = 0.0
        out.append(c)
    for k in range(12 if tier == "quick" else 300):
        c = rand_case(rng, "m0")
        c["flow"]["Mach_number"] = 0.0
        c["flow"]["beta"] = 0.0
        out.append(c)
    for k in range(4 if tier == "quick" else 90):
        c = rand_case(rng, "cont")
        c["_cost"] = 8
        out.append(c)
    for k in range(3 if tier == "quick" else 48):
        spec = M.random_spec(rng, half="left", nx=int(rng.integers(2, 4)), ny=int(rng.integers(3, 6)))
        # structurally sane wing for its dynamic pressure (a convergent coupling is part of the property's domain)
        spec.update(root_chord=float(np.round(max(spec["root_chord"], spec["span"] / 9.0), 3)), taper=max(spec["taper"], 0.5), camber=0.0)
        out.append(dict(kind="as", surfaces=[dict(name="s0", symmetry=True, mesh=spec, fem_model_type="tube" if k % 2 else "wingbox")],
                        flow=dict(alpha=float(np.round(rng.uniform(0, 6), 2)), v=120.0, rho=0.5, Mach_number=float(np.round(rng.uniform(0.3, 0.85), 3))), _cost=5))
    return out


def forces_of(prob, path, surfaces):
    return np.concatenate([np.array(prob.get_val(path + "." + s["name"] + "_sec_forces")).reshape(-1, 3) for s in surfaces])


def run_pg(c, o):
    prob = zoo.build_aero(dict(surfaces=c["surfaces"], flow=c["flow"], rotational=c["rotational"], compressible=True), geom=False)
    zoo.run(prob)
    surfaces = prob._oas_surfaces
    flow = dict(zoo.FLOW_DEFAULT)
    flow.update(c["flow"])
    meshes = [s["mesh"] for s in surfaces]
    F = forces_of(prob, "aero.aero_states", surfaces)
    Fref, ref = pg_reference(meshes, [s["symmetry"] for s in surfaces], flow, c["rotational"])
    tags = ["rot" if c["rotational"] else "norot", "sym" if c["sym"] else "full", "beta!=0" if flow["beta"] else "beta=0"]
    o.close("pg/sec_forces", F, Fref, rtol=1e-8, tags=tags)
    o.close("pg/circulations", prob.get_val("aero.aero_states.circulations"), ref["G"], rtol=1e-8, tags=tags)
    # coefficients are consistent with the compressible forces (wind-axis decomposition of their sum)
    a = np.deg2rad(flow["alpha"])
    b = np.deg2rad(flow["beta"])
    i0 = 0
    for s in surfaces:
        n = (s["mesh"].shape[0] - 1) * (s["mesh"].shape[1] - 1)
        Fs = Fref[i0:i0 + n].sum(axis=0) * (2.0 if s["symmetry"] else 1.0)
        i0 += n
        L = -Fs[0] * np.sin(a) + Fs[2] * np.cos(a)
        o.close("pg/L", prob.get_val("aero.%s_perf.L" % s["name"]), L, rtol=1e-8, scale=max(abs(L), np.abs(Fs).max()), tags=tags)
    o.info = dict(M=flow["Mach_number"], npanels=len(F))
    o.nontrivial = bool(np.abs(F).max() > 0 and flow["Mach_number"] > 0.05)


def run_m0(c, o):
    pc = zoo.build_aero(dict(surfaces=c["surfaces"], flow=c["flow"], rotational=c["rotational"], compressible=True), geom=False)
    pi = zoo.build_aero(dict(surfaces=c["surfaces"], flow=c["flow"], rotational=c["rotational"], compressible=False), geom=False)
    zoo.run(pc)
    zoo.run(pi)
    surfaces = pc._oas_surfaces
    tags = ["rot" if c["rotational"] else "norot"]
    o.close("m0/sec_forces", forces_of(pc, "aero.aero_states", surfaces), forces_of(pi, "aero.aero_states", surfaces), rtol=1e-8, tags=tags)
    for q in ("CL", "CD", "CM"):
        o.close("m0/" + q, pc.get_val("aero." + q), pi.get_val("aero." + q), rtol=1e-8, atol=1e-13, tags=tags)
    o.nontrivial = True


def run_cont(c, o):
    prob = zoo.build_aero(dict(surfaces=c["surfaces"], flow=c["flow"], rotational=c["rotational"], compressible=True), geom=False)
    surfaces = prob._oas_surfaces

    def at(Mn):
        prob.set_val("Mach_number", Mn)
        zoo.run(prob)
        return np.concatenate([forces_of(prob, "aero.aero_states", surfaces).ravel(), np.ravel(prob.get_val("aero.CL")),
                               np.ravel(prob.get_val("aero.CD")), np.ravel(prob.get_val("aero.CM"))])

    Ms = np.linspace(0.0, 0.94, 48)
    X = np.array([at(m) for m in Ms])
    o.true("cont/finite", bool(np.all(np.isfinite(X))), "non-finite output on the Mach ladder")
    nf = X.shape[1] - 5
    # each force component is scaled by the largest force, each coefficient by its own family's magnitude
    # (entries that are zero up to round-off must not be compared with themselves)
    scale = np.empty(X.shape[1])
    scale[:nf] = np.abs(X[:, :nf]).max()
    scale[nf] = max(np.abs(X[:, nf]).max(), 1e-6)
    scale[nf + 1] = max(np.abs(X[:, nf + 1]).max(), 1e-6)
    scale[nf + 2:] = max(np.abs(X[:, nf + 2:]).max(), 1e-6)
    d = np.abs(np.diff(X, axis=0)) / scale  # (47, nq)
    dm = d.max(axis=1)
    for k in range(1, len(dm) - 1):
        nb = max(dm[k - 1], dm[k + 1])
        o.true("cont/no_jump", dm[k] <= 3.0 * nb + 1e-12, "isolated jump between M=%.3f and %.3f: %.3e vs neighbours %.3e" % (Ms[k], Ms[k + 1], dm[k], nb))
    # the same "no isolated jump" criterion at half the step on a few sub-intervals
    rng = np.random.default_rng(c["surfaces"][0]["mesh"]["seed"])
    for k in rng.choice(np.arange(2, 45), 3, replace=False):
        xm = at(0.5 * (Ms[k] + Ms[k + 1]))
        d1 = (np.abs(xm - X[k]) / scale).max()
        d2 = (np.abs(X[k + 1] - xm) / scale).max()
        nb = max(dm[k - 1], dm[k], dm[k + 1])
        o.true("cont/halving", max(d1, d2) <= 3.0 * nb + 1e-12, "jump inside the Mach interval [%.3f, %.3f]: half-step increments %.3e, %.3e vs ladder increments %.3e" % (Ms[k], Ms[k + 1], d1, d2, nb))
    x0 = at(0.0)
    x1 = at(1e-8)
    o.close("cont/M_to_0", x1, x0, rtol=1e-8, atol=1e-300)
    o.nontrivial = True


def run_as(c, o):
    prob = zoo.build_as(dict(surfaces=c["surfaces"], flow=c["flow"], compressible=True))
    zoo.run(prob)
    surfaces = prob._oas_surfaces
    flow = dict(zoo.AS_FLOW_DEFAULT)
    flow.update(c["flow"])
    meshes = [np.array(prob.get_val("AS_point_0.coupled.%s.def_mesh" % s["name"])) for s in surfaces]
    F = forces_of(prob, "AS_point_0.coupled.aero_states", surfaces)
    Fref, ref = pg_reference(meshes, [s["symmetry"] for s in surfaces], flow, False)
    o.close("pg_as/sec_forces", F, Fref, rtol=1e-8)
    o.nontrivial = True


def run_case(c):
    o = Obs()
    {"pg": run_pg, "m0": run_m0, "cont": run_cont, "as": run_as}[c["kind"]](c, o)
    return o
