"""C20 - invalid set-ups are rejected loudly; valid ones give finite, repeatable results and leave user data untouched."""
import copy
import hashlib
import json
import os
import subprocess
import sys
import warnings

import numpy as np

from ..obs import Obs, jsonable
from .. import meshes as M
from .. import zoo, env

LEVEL = "exploration"
RULE = ("cases = (reject) a table of malformed inputs generated in every list position / wrong length / group type -> expected "
        "exception class at generate_mesh or Problem.setup; (warn) unknown / missing dictionary keys -> RuntimeWarning and the "
        "analysis proceeds; (valid) seeded random admissible aero, structural and aerostructural models: every output of every "
        "component finite, run twice in-process and once in a fresh interpreter with equal results, user dictionaries "
        "(all arrays reachable from them) unchanged after setup/run/derivatives; (interleave) 3-5 independent problems of "
        "different configuration driven by a random interleaving of their operation lists vs their isolated traces.  "
        "Non-trivial = the expected behaviour was observable (exception/warning raised, or non-zero finite outputs compared)")
ASSUMPTIONS = ["the error/warning table below is the documented behaviour named in the property", "BLAS pinned to one thread"]
REQUIRED_FAMILIES = ["reject/raises_expected", "warn/warns_and_proceeds", "valid/all_outputs_finite", "valid/repeat_in_process", "valid/repeat_fresh_process",
                     "valid/user_data_untouched", "interleave/matches_isolated"]
LEVEL_TEXT = ("malformed inputs are generated in every position and must raise the documented exception class; admissible models are "
              "executed repeatedly, in fresh interpreters and interleaved with other live problems, with finite-output, equality and "
              "user-data-digest monitors on every execution")
TECHNIQUE = "runtime monitoring: error-path oracle table + finite-output / repeatability / interleaving / user-data digest monitors"


# ---------------------------------------------------------------------------------------------- cases
def rand_valid(rng, k):
    kind = ["aero", "aero_geom", "struct", "as"][k % 4]
    symc = bool(rng.integers(2))
    half = "left" if symc else "full"
    spec = M.random_spec(rng, half=half, nx=int(rng.integers(2, 4)), ny=int(rng.integers(3, 7)))
    spec.update(root_chord=float(np.round(max(spec["root_chord"], spec["span"] / 9.0), 3)), taper=max(spec["taper"], 0.5), camber=0.0)
    s = dict(name="wing", symmetry=symc, mesh=spec, with_viscous=bool(rng.integers(2)), with_wave=bool(rng.integers(2)))
    c = dict(kind="valid", model=kind, surfaces=[s], seed=int(rng.integers(1 << 30)))
    if kind in ("aero", "aero_geom"):
        if rng.random() < 0.5:
            s2 = dict(name="tail", symmetry=symc, mesh=dict(M.random_spec(rng, half=half, nx=2, ny=int(rng.integers(3, 6))), offset=[6.0, 0.0, 0.8]))
            c["surfaces"].append(s2)
        c["flow"] = dict(alpha=float(np.round(rng.uniform(-5, 10), 2)), beta=0.0 if symc else float(np.round(rng.uniform(-5, 5), 2)), v=float(rng.uniform(40, 240)),
                         rho=float(rng.uniform(0.3, 1.2)), Mach_number=float(np.round(rng.uniform(0.2, 0.9), 3)), re=1e6)
        c["compressible"] = bool(rng.integers(2))
        if kind == "aero_geom":
            s.update(twist_cp=[float(x) for x in np.round(rng.uniform(-3, 3, 3), 2)], chord_cp=[1.0, 1.1], sweep=float(np.round(rng.uniform(0, 20), 1)), taper=0.8,
                     dihedral=3.0, span=spec["span"] * 1.1, xshear_cp=[0.0, 0.1], zshear_cp=[0.0, 0.05], t_over_c_cp=[0.1, 0.14])
    else:
        s["fem_model_type"] = "tube" if rng.integers(2) else "wingbox"
        s["struct_weight_relief"] = bool(rng.integers(2))
        s["exact_failure_constraint"] = bool(rng.integers(2))
        s["twist_cp"] = [float(x) for x in np.round(rng.uniform(-2, 2, 2), 2)]
        c["flow"] = dict(alpha=float(np.round(rng.uniform(0, 6), 2)), v=float(rng.uniform(60, 160)), rho=float(rng.uniform(0.3, 0.8)), Mach_number=0.6,
                         load_factor=float(rng.choice([1.0, 2.5])))
    if kind in ("struct", "as") and rng.random() < 0.35:
        # engines / stores as point masses with thrust
        s["n_point_masses"] = 1
        c["point_masses"] = [float(np.round(10 ** rng.uniform(1, 3), 1))]
        c["point_mass_locations"] = [[float(np.round(rng.uniform(-0.5, 1.0), 2)), float(np.round(-rng.uniform(0.1, 0.45) * spec["span"], 2)), float(np.round(rng.uniform(-0.3, 0.3), 2))]]
        c["engine_thrusts"] = [float(np.round(10 ** rng.uniform(2, 4), 1))]
    # documented option values at the ends of their ranges (fully turbulent / fully laminar boundary layer, zero offsets, projected area)
    s["k_lam"] = float(rng.choice([0.0, 0.05, 1.0, float(np.round(rng.random(), 2))]))
    s["CL0"] = float(rng.choice([0.0, float(np.round(rng.uniform(-0.2, 0.4), 3))]))
    s["CD0"] = float(rng.choice([0.0, 0.015]))
    s["S_ref_type"] = str(rng.choice(["wetted", "wetted", "projected"]))
    s["c_max_t"] = float(rng.choice([0.303, 0.1, 0.6]))
    return c


def cases(tier, seed):
    rng = np.random.default_rng(20000 + seed)
    out = []
    # ---- rejections
    for nsurf in (1, 2, 3):
        for bad in range(nsurf):
            for grp in ("aero", "as"):
                out.append(dict(kind="reject", what="ground_without_symmetry", nsurf=nsurf, bad=bad, group=grp))
    for ny in ([2, 4, 8, 20] if tier == "quick" else list(range(2, 42, 2))):
        for sym in (True, False):
            for wt in ("rect", "CRM"):
                out.append(dict(kind="reject", what="even_num_y", num_y=ny, symmetry=sym, wing_type=wt))
    for wt in ("rectangular", "crm", "Rect", "", "elliptical"):
        out.append(dict(kind="reject", what="unknown_wing_type", wing_type=wt))
    for fm in ("shell", "Tube", "", "box"):
        for grp in ("struct_alone", "as_geometry", "as_point"):
            out.append(dict(kind="reject", what="unknown_fem_model_type", fem=fm, group=grp))
    for only in ("spar_thickness_cp", "skin_thickness_cp"):
        for grp in ("struct_alone", "as_geometry"):
            out.append(dict(kind="reject", what="one_wingbox_thickness", only=only, group=grp))
    for key in ("ny", "taper", "span", "sweep", "sec_name", "meshes"):
        for ns in (2, 3):
            for delta in (-1, 1):
                out.append(dict(kind="reject", what="multisection_list_length", key=key, num_sections=ns, delta=delta))
    out.append(dict(kind="reject", what="getFullMesh_none"))
    out.append(dict(kind="reject", what="getFullMesh_both"))
    # ---- warnings
    for key in ("span_cos_spacing_typo", "numy", "chord", "foo"):
        out.append(dict(kind="warn", what="unknown_mesh_key", key=key))
    for key in ("num_x", "num_y", "wing_type", "symmetry"):
        out.append(dict(kind="warn", what="missing_mesh_key", key=key))
    for key in ("twist", "Sref", "with_visc", "E_modulus"):
        for grp in ("geometry", "as_geometry", "multisec"):
            out.append(dict(kind="warn", what="unknown_surface_key", key=key, group=grp))
    # ---- valid models
    n = 16 if tier == "quick" else 240
    for k in range(n):
        c = rand_valid(rng, k)
        c["_cost"] = 10 if c["model"] == "as" else 4
        out.append(c)
    n = 4 if tier == "quick" else 60
    for k in range(n):
        ns = 3 + k % 2
        out.append(dict(kind="valid", model="multisec", num_sections=ns, symmetry=bool(k % 2 == 0), seed=int(rng.integers(1 << 30)), shift=bool(k % 4 < 3),
                        nys=[int(rng.integers(2, 5)) if k % 2 == 0 else 3 for _ in range(ns)], nx=int(rng.integers(2, 4)),
                        flow=dict(alpha=float(np.round(rng.uniform(1, 8), 2)), v=50.0, rho=1.0, Mach_number=0.3, re=1e6), surfaces=[], _cost=6))
    # generated multi-section wings; a sibling wing that differs in ONE generator parameter is built and run first in the same process
    # (a result remembered from the sibling must not leak into this wing: compared with a fresh interpreter that never saw the sibling)
    n = 4 if tier == "quick" else 60
    for k in range(n):
        ns = 2 + k % 2
        key = ["root_chord", "span", "taper", "sweep"][k % 4]
        out.append(dict(kind="valid", model="multisec_gen", num_sections=ns, symmetry=True, nx=int(rng.integers(2, 4)), nys=[int(rng.integers(2, 5)) for _ in range(ns)],
                        span=[float(np.round(rng.uniform(1, 4), 3)) for _ in range(ns)], taper=[float(np.round(rng.uniform(0.5, 1.0), 3)) for _ in range(ns)],
                        sweep=[float(np.round(rng.uniform(0, 0.4), 3)) for _ in range(ns)], root_chord=float(np.round(rng.uniform(0.8, 2.0), 3)), sibling=key,
                        flow=dict(alpha=float(np.round(rng.uniform(1, 8), 2)), v=50.0, rho=1.0, Mach_number=0.3, re=1e6), surfaces=[], seed=int(rng.integers(1 << 30)), _cost=8))
    n = 3 if tier == "quick" else 40
    for k in range(n):
        m = int(rng.integers(3, 6))
        subs = [rand_valid(rng, int(rng.integers(100))) for _ in range(m)]
        out.append(dict(kind="interleave", subs=subs, seed=int(rng.integers(1 << 30)), _cost=20))
    return out


# ---------------------------------------------------------------------------------------------- reject / warn
def small_surface(name="wing", sym=True, **kw):
    d = dict(name=name, symmetry=sym, mesh=dict(nx=2, ny=3, half="left" if sym else "full", span=8.0))
    d.update(kw)
    return d


def run_reject(c, o):
    from openaerostruct.geometry.utils import generate_mesh, getFullMesh
    import openmdao.api as om

    w = c["what"]
    expected = dict(ground_without_symmetry=ValueError, even_num_y=ValueError, unknown_wing_type=NameError, unknown_fem_model_type=NameError,
                    one_wingbox_thickness=NameError, multisection_list_length=ValueError, getFullMesh_none=ValueError, getFullMesh_both=ValueError)[w]
    raised = None
    ran_numbers = None
    try:
        with warnings.catch_warnings():
            warnings.simplefilter("ignore")
            if w == "ground_without_symmetry":
                surfs = []
                for i in range(c["nsurf"]):
                    sym = i != c["bad"]
                    s = small_surface("s%d" % i, sym, groundplane=(i == c["bad"]))
                    s["mesh"]["offset"] = [4.0 * i, 0.0, 0.5 * i]
                    if c["group"] == "as":
                        s["fem_model_type"] = "tube"
                    surfs.append(s)
                p = (zoo.build_aero if c["group"] == "aero" else zoo.build_as)(dict(surfaces=surfs, flow=dict(height_agl=10.0)))
                zoo.run(p)
                ran_numbers = True
            elif w == "even_num_y":
                generate_mesh(dict(num_x=3, num_y=c["num_y"], wing_type=c["wing_type"], symmetry=c["symmetry"]))
                ran_numbers = True
            elif w == "unknown_wing_type":
                generate_mesh(dict(num_x=3, num_y=5, wing_type=c["wing_type"], symmetry=True))
                ran_numbers = True
            elif w in ("unknown_fem_model_type", "one_wingbox_thickness"):
                if w == "unknown_fem_model_type":
                    s = zoo.struct_surface(small_surface(fem_model_type="tube"))
                    s["fem_model_type"] = c["fem"]
                else:
                    s = zoo.struct_surface(small_surface(fem_model_type="wingbox"))
                    other = "skin_thickness_cp" if c["only"] == "spar_thickness_cp" else "spar_thickness_cp"
                    del s[other]
                p = om.Problem(reports=False)
                if c["group"] == "struct_alone":
                    from openaerostruct.structures.struct_groups import SpatialBeamAlone

                    p.model.add_subsystem("wing", SpatialBeamAlone(surface=s))
                elif c["group"] == "as_geometry":
                    from openaerostruct.integration.aerostruct_groups import AerostructGeometry

                    p.model.add_subsystem("wing", AerostructGeometry(surface=s))
                else:
                    from openaerostruct.integration.aerostruct_groups import AerostructPoint

                    p.model.add_subsystem("pt", AerostructPoint(surfaces=[s]))
                p.setup()
                ran_numbers = True
            elif w == "multisection_list_length":
                from openaerostruct.geometry.geometry_group import MultiSecGeometry

                ns = c["num_sections"]
                surf = {"name": "surface", "is_multi_section": True, "num_sections": ns, "sec_name": ["sec%d" % i for i in range(ns)], "symmetry": True,
                        "S_ref_type": "wetted", "taper": [1.0] * ns, "span": [1.0] * ns, "sweep": [0.0] * ns, "root_chord": 1.0, "meshes": "gen-meshes", "nx": 2,
                        "ny": [3] * ns, "CL0": 0.0, "CD0": 0.0, "k_lam": 0.05, "c_max_t": 0.303, "with_viscous": False, "with_wave": False}
                key = c["key"]
                n2 = ns + c["delta"]
                if key == "meshes":
                    surf["meshes"] = [M.build(dict(nx=2, ny=3, half="left", span=2.0)) for _ in range(n2)]
                elif key == "sec_name":
                    surf["sec_name"] = ["sec%d" % i for i in range(n2)]
                else:
                    surf[key] = [surf[key][0]] * n2
                p = om.Problem(reports=False)
                p.model.add_subsystem("surface", MultiSecGeometry(surface=surf))
                p.setup()
                ran_numbers = True
            elif w == "getFullMesh_none":
                getFullMesh()
            elif w == "getFullMesh_both":
                m = M.build(dict(nx=2, ny=3, half="left"))
                getFullMesh(left_mesh=m, right_mesh=M.mirror(m))
    except Exception as e:  # noqa: BLE001
        raised = e
    o.tags = [w]
    # the property asks for "an error instead of numbers": any exception raised before results exist is a rejection; the
    # documented class is recorded as information
    o.info = dict(expected=expected.__name__, raised=type(raised).__name__ if raised is not None else None)
    o.true("reject/raises_expected", isinstance(raised, Exception) and not ran_numbers,
           "%s %s: expected %s, got %r%s" % (w, {k: v for k, v in c.items() if k not in ("kind", "what")}, expected.__name__, raised,
                                             " (numbers were produced)" if ran_numbers else ""))
    o.nontrivial = True


def run_warn(c, o):
    from openaerostruct.geometry.utils import generate_mesh
    import openmdao.api as om

    w = c["what"]
    with warnings.catch_warnings(record=True) as rec:
        warnings.simplefilter("always")
        ok_result = False
        if w == "unknown_mesh_key":
            d = dict(num_x=2, num_y=5, wing_type="rect", symmetry=True)
            d[c["key"]] = 1.0
            m = generate_mesh(d)
            ok_result = isinstance(m, np.ndarray) and m.shape == (2, 3, 3)
        elif w == "missing_mesh_key":
            d = dict(num_x=2, num_y=5, wing_type="rect", symmetry=True)
            del d[c["key"]]
            m = generate_mesh(d)
            ok_result = isinstance(m, np.ndarray) and np.all(np.isfinite(m))
        else:
            p = om.Problem(reports=False)
            if c["group"] == "geometry":
                from openaerostruct.geometry.geometry_group import Geometry

                s = zoo.aero_surface(small_surface())
                s[c["key"]] = 1.0
                p.model.add_subsystem("g", Geometry(surface=s))
                out = "g.mesh"
            elif c["group"] == "as_geometry":
                from openaerostruct.integration.aerostruct_groups import AerostructGeometry

                s = zoo.struct_surface(small_surface(fem_model_type="tube"))
                s[c["key"]] = 1.0
                p.model.add_subsystem("g", AerostructGeometry(surface=s))
                out = "g.mesh"
            else:
                from openaerostruct.geometry.geometry_group import MultiSecGeometry

                ms = [M.build(dict(nx=2, ny=3, half="left", span=4.0, offset=[0, -2.0, 0])), M.build(dict(nx=2, ny=3, half="left", span=4.0))]
                s = {"name": "surface", "is_multi_section": True, "num_sections": 2, "sec_name": ["a", "b"], "symmetry": True, "S_ref_type": "wetted", "meshes": ms,
                     "CL0": 0.0, "CD0": 0.0, "k_lam": 0.05, "c_max_t": 0.303, "with_viscous": False, "with_wave": False}
                s[c["key"]] = 1.0
                p.model.add_subsystem("g", MultiSecGeometry(surface=s))
                out = "g.surface_unification.surface_uni_mesh"
            p.setup()
            p.run_model()
            ok_result = bool(np.all(np.isfinite(p.get_val(out))))
    mine = [r for r in rec if issubclass(r.category, RuntimeWarning) and c["key"] in str(r.message)]
    o.tags = [w, c.get("group", "mesh_dict")]
    o.true("warn/warns_and_proceeds", bool(mine) and ok_result,
           "%s key %r (%s): RuntimeWarning naming the key %s, analysis %s" % (w, c["key"], c.get("group", "generate_mesh"), "raised" if mine else "NOT raised",
                                                                             "proceeded" if ok_result else "did not produce a finite result"))
    o.nontrivial = True


# ---------------------------------------------------------------------------------------------- valid models
def build_multisec(c):
    """multi-section surface with user-supplied section meshes, each drawn in its own local frame (edges not coincident), wired as
    the repository's multi-section tests wire it"""
    import openmdao.api as om
    from openaerostruct.geometry.geometry_group import MultiSecGeometry, build_sections
    from openaerostruct.geometry.geometry_unification import unify_mesh
    from openaerostruct.aerodynamics.aero_groups import AeroPoint

    rng = np.random.default_rng(c["seed"])
    ns = c["num_sections"]
    meshes = []
    for i in range(ns):
        half = "left"
        spec = dict(nx=c["nx"], ny=c["nys"][i] if c["symmetry"] else 3, half=half, span=float(rng.uniform(2, 5)), root_chord=float(rng.uniform(0.8, 1.5)),
                    offset=[float(rng.uniform(-0.5, 0.5)), float(rng.uniform(-1, 1)), 0.0])
        meshes.append(M.build(spec))
    pristine = [m_.copy() for m_ in meshes]  # before the repository sees them
    surface = {"name": "surface", "is_multi_section": True, "num_sections": ns, "sec_name": ["sec%d" % i for i in range(ns)], "symmetry": c["symmetry"],
               "S_ref_type": "wetted", "meshes": meshes, "chord_cp": [np.array([1.0, 0.9]) for _ in range(ns)], "CL0": 0.0, "CD0": 0.01, "k_lam": 0.05,
               "t_over_c_cp": [np.array([0.12]) for _ in range(ns)], "c_max_t": 0.303, "with_viscous": True, "with_wave": False}
    prob = om.Problem(reports=False)
    ivc = om.IndepVarComp()
    fl = dict(zoo.FLOW_DEFAULT)
    fl.update(c["flow"])
    for n_ in ("v", "alpha", "Mach_number", "re", "rho", "cg"):
        ivc.add_output(n_, val=np.array(fl[n_], float), units=zoo.FLOW_UNITS[n_])
    prob.model.add_subsystem("fc", ivc, promotes=["*"])
    prob.model.add_subsystem("surface", MultiSecGeometry(surface=surface, shift_uni_mesh=c["shift"]))
    secs = build_sections(surface)
    surface["mesh"] = unify_mesh(secs, shift_uni_mesh=c["shift"])
    prob.model.add_subsystem("aero", AeroPoint(surfaces=[surface]), promotes_inputs=["v", "alpha", "Mach_number", "re", "rho", "cg"])
    prob.model.connect("surface.surface_unification.surface_uni_mesh", "aero.surface.def_mesh")
    prob.model.connect("surface.surface_unification.surface_uni_mesh", "aero.aero_states.surface_def_mesh")
    prob.model.connect("surface.surface_unification.surface_uni_t_over_c", "aero.surface_perf.t_over_c")
    with warnings.catch_warnings():
        warnings.simplefilter("ignore")
        prob.setup()
    prob._oas_surfaces = [surface]
    prob._oas_pristine = pristine
    return prob


def build_multisec_gen(c):
    """multi-section surface whose section meshes come from the repository's generator ("meshes": "gen-meshes")"""
    import openmdao.api as om
    from openaerostruct.geometry.geometry_group import MultiSecGeometry, build_sections
    from openaerostruct.geometry.geometry_unification import unify_mesh
    from openaerostruct.aerodynamics.aero_groups import AeroPoint

    ns = c["num_sections"]
    surface = {"name": "surface", "is_multi_section": True, "num_sections": ns, "sec_name": ["sec%d" % i for i in range(ns)], "symmetry": c["symmetry"], "S_ref_type": "wetted",
               "root_section": ns - 1, "taper": np.array(c["taper"], float), "span": np.array(c["span"], float), "sweep": np.array(c["sweep"], float), "root_chord": float(c["root_chord"]),
               "meshes": "gen-meshes", "nx": c["nx"], "ny": np.array(c["nys"]), "CL0": 0.0, "CD0": 0.01, "k_lam": 0.05, "t_over_c_cp": [np.array([0.12]) for _ in range(ns)],
               "c_max_t": 0.303, "with_viscous": True, "with_wave": False, "groundplane": False}
    prob = om.Problem(reports=False)
    ivc = om.IndepVarComp()
    fl = dict(zoo.FLOW_DEFAULT)
    fl.update(c["flow"])
    for n_ in ("v", "alpha", "Mach_number", "re", "rho", "cg"):
        ivc.add_output(n_, val=np.array(fl[n_], float), units=zoo.FLOW_UNITS[n_])
    prob.model.add_subsystem("fc", ivc, promotes=["*"])
    prob.model.add_subsystem("surface", MultiSecGeometry(surface=surface))
    secs = build_sections(surface)
    surface["mesh"] = unify_mesh(secs)
    prob.model.add_subsystem("aero", AeroPoint(surfaces=[surface]), promotes_inputs=["v", "alpha", "Mach_number", "re", "rho", "cg"])
    prob.model.connect("surface.surface_unification.surface_uni_mesh", "aero.surface.def_mesh")
    prob.model.connect("surface.surface_unification.surface_uni_mesh", "aero.aero_states.surface_def_mesh")
    prob.model.connect("surface.surface_unification.surface_uni_t_over_c", "aero.surface_perf.t_over_c")
    with warnings.catch_warnings():
        warnings.simplefilter("ignore")
        prob.setup()
    prob._oas_surfaces = [surface]
    return prob


def build(c):
    if c["model"] == "multisec":
        return build_multisec(c)
    if c["model"] == "multisec_gen":
        return build_multisec_gen(c)
    case = dict(surfaces=copy.deepcopy(c["surfaces"]), flow=c.get("flow", {}), compressible=c.get("compressible", False))
    extra = {k: c[k] for k in ("point_masses", "point_mass_locations", "engine_thrusts") if k in c}
    case.update(extra)
    if c["model"] == "aero":
        return zoo.build_aero(case, geom=False)
    if c["model"] == "aero_geom":
        return zoo.build_aero(case, geom=True)
    if c["model"] == "struct":
        return zoo.build_struct(dict(extra, surface=case["surfaces"][0], load_seed=c["seed"]))
    return zoo.build_as(case)


def of_wrt(c):
    if c["model"] in ("aero", "aero_geom", "multisec", "multisec_gen"):
        return ["aero.CL", "aero.CD"], ["alpha"]
    if c["model"] == "struct":
        return ["failure", "structural_mass"], ["loads"]
    return ["AS_point_0.CL", "AS_point_0.fuelburn", "AS_point_0.wing_perf.failure"], ["alpha_0", "wing.twist_cp"]


def digest_user(surfaces):
    h = {}

    def walk(x, path):
        if isinstance(x, np.ndarray):
            h[path] = hashlib.sha1(np.ascontiguousarray(x).tobytes()).hexdigest() + str(x.shape) + str(x.dtype)
        elif isinstance(x, dict):
            for k in sorted(x, key=str):
                walk(x[k], path + "/" + str(k))
        elif isinstance(x, (list, tuple)):
            for i, v in enumerate(x):
                walk(v, path + "/%d" % i)
        else:
            h[path] = repr(x)

    walk(surfaces, "")
    return h


def all_outputs(prob):
    from openmdao.core.component import Component

    out = {}
    for s in prob.model.system_iter(recurse=True, typ=Component):
        if not type(s).__module__.startswith("openaerostruct"):
            continue
        for name in s._outputs:
            out[s.pathname + ":" + name] = np.array(s._outputs[name]).copy()
    return out


def trace(c, prob=None):
    """the operation list of one model: run, totals, perturbed run, back"""
    if prob is None:
        prob = build(c)
    steps = []
    zoo.run(prob)
    steps.append(all_outputs(prob))
    of, wrt = of_wrt(c)
    with warnings.catch_warnings():
        warnings.simplefilter("ignore")
        J = prob.compute_totals(of=of, wrt=wrt)
    steps.append({"%s|%s" % k: np.array(v).copy() for k, v in J.items()})
    return prob, steps


def flat(steps):
    out = {}
    for i, st in enumerate(steps):
        for k, v in st.items():
            out["%d:%s" % (i, k)] = np.asarray(v, float)
    return out


def compare_flat(o, fam, a, b, tags=(), rtol=1e-12, loose=1e-7):
    bad = None
    worst = 0.0
    if set(a) != set(b):
        o.true(fam, False, "different sets of outputs between the two runs", tags=tags)
        return
    for k in a:
        x, y = a[k], b[k]
        sc = max(np.abs(x).max(initial=0.0), np.abs(y).max(initial=0.0))
        if sc == 0:
            continue
        # quantities downstream of the coupled solver carry the solver tolerance
        t = loose if ("AS_point" in k) else rtol
        e = float(np.abs(x - y).max()) / sc / t
        if e > worst:
            worst, bad = e, k
    o._fam(fam, worst)
    if worst > 1.0:
        o.violate(fam, "%s differs between runs by %.2e x tolerance" % (bad, worst), err=worst, tol=1.0, tags=tags)


def run_valid(c, o):
    if c["model"] == "multisec_gen" and c.get("sibling"):
        k_ = c["sibling"]
        sib = dict(c)
        sib[k_] = float(np.round(c[k_] * 1.29, 4)) if k_ == "root_chord" else [float(np.round(x * 0.81 + (0.05 if k_ == "sweep" else 0.0), 4)) for x in c[k_]]
        zoo.run(build(sib))
        o.count("sibling_wings_run_first")
    prob = build(c)
    user = prob._oas_surfaces
    d0 = digest_user(user)
    snap = copy.deepcopy(user)
    prob2, steps = trace(c, prob)
    outs = steps[0]
    tags = [c["model"]]
    bad = [k for k, v in outs.items() if not np.all(np.isfinite(v))]
    if bad and c["model"] == "as":
        # the Breguet range equation has a pole at L/D -> 0+: an operating point whose fuel burn exceeds 1e12 x the aircraft's mass lies
        # outside the domain of the performance model (fuel burn itself is still finite and is checked); the outputs computed from it
        # (cg = ... / (W/g - fuelburn), moment about that cg) do not decide there
        fb = [float(np.max(np.abs(v))) for k, v in outs.items() if k.endswith(":fuelburn") and np.all(np.isfinite(v))]
        if fb and max(fb) > 1e12 * 1e3:
            down = [k for k in bad if ".CG:" in k or ".moment:" in k or "L_equals_W" in k]
            o.count("outputs_outside_breguet_domain_not_decided", len(down))
            bad = [k for k in bad if k not in down]
    o.true("valid/all_outputs_finite", not bad, "non-finite outputs: %s" % bad[:5], tags=tags)
    o.count("component_outputs_scanned", len(outs))
    badJ = [k for k, v in steps[1].items() if not np.all(np.isfinite(v))]
    o.true("valid/all_totals_finite", not badJ, "non-finite total derivatives: %s" % badJ[:5], tags=tags)
    d1 = digest_user(user)
    changed = [k for k in d0 if d0[k] != d1.get(k)]
    if c["model"] == "multisec":
        # the digest d0 was taken after build_sections/unify_mesh already ran: compare the section meshes with the pristine copies
        for i, (a_, b_) in enumerate(zip(user[0]["meshes"], prob._oas_pristine)):
            if not np.array_equal(a_, b_):
                changed.append("/0/meshes/%d (modified by build_sections/unify_mesh/setup)" % i)
    o.true("valid/user_data_untouched", not changed and set(d0) == set(d1), "user surface dictionary entries modified by setup/run/derivatives: %s" % changed[:6], tags=tags)
    # repeat in the same process (second problem built from the same description)
    _p, steps_b = trace(c)
    compare_flat(o, "valid/repeat_in_process", flat(steps), flat(steps_b), tags)
    # and re-running the same live problem gives the same outputs
    zoo.run(prob)
    compare_flat(o, "valid/rerun_same_problem", flat([all_outputs(prob)]), flat([outs]), tags)
    # fresh interpreter
    envv = dict(os.environ)
    r = subprocess.run([sys.executable, "-m", "oasverif.checks.c20", json.dumps(jsonable(c))], capture_output=True, text=True, timeout=600, env=envv, cwd=env.VERIF)
    if r.returncode != 0:
        o.unsure("fresh-process run failed: " + r.stderr[-400:])
    else:
        other = {k: np.array(v, float) for k, v in json.loads(r.stdout.strip().splitlines()[-1]).items()}
        mine = {k: v for k, v in flat(steps).items()}
        compare_flat(o, "valid/repeat_fresh_process", {k: mine[k] for k in other}, other, tags)
    o.nontrivial = bool(max(np.abs(v).max(initial=0.0) for v in outs.values()) > 0)


def run_interleave(c, o):
    rng = np.random.default_rng(c["seed"])
    subs = c["subs"]
    iso = []
    for s in subs:
        _p, st = trace(s)
        iso.append(flat(st))
    # interleaved: build all, then execute the operations of all problems in a random order
    probs = [build(s) for s in subs]
    ops = []
    for i in range(len(subs)):
        ops += [(i, "run"), (i, "totals")]
    order = list(rng.permutation(len(ops)))
    done = {i: [] for i in range(len(subs))}
    pending = {i: ["run", "totals"] for i in range(len(subs))}
    seq = [ops[j][0] for j in order]
    for i in seq:
        op = pending[i].pop(0)
        if op == "run":
            zoo.run(probs[i])
            done[i].append(all_outputs(probs[i]))
        else:
            of, wrt = of_wrt(subs[i])
            with warnings.catch_warnings():
                warnings.simplefilter("ignore")
                J = probs[i].compute_totals(of=of, wrt=wrt)
            done[i].append({"%s|%s" % k: np.array(v).copy() for k, v in J.items()})
    for i, s in enumerate(subs):
        compare_flat(o, "interleave/matches_isolated", flat(done[i]), iso[i], tags=[s["model"], "problems=%d" % len(subs)])
    o.info = dict(order=[int(x) for x in seq])
    o.nontrivial = True


def run_case(c):
    o = Obs()
    {"reject": run_reject, "warn": run_warn, "valid": run_valid, "interleave": run_interleave}[c["kind"]](c, o)
    return o


if __name__ == "__main__":
    # fresh-interpreter helper: prints the flattened trace of one valid case as JSON
    env.assert_tree()
    warnings.filterwarnings("ignore")
    np.seterr(all="ignore")
    import tempfile

    import shutil

    _scratch = tempfile.mkdtemp(prefix="oasverif_f_")
    os.chdir(_scratch)
    try:
        case = json.loads(sys.argv[1])
        _p, st = trace(case)
        print(json.dumps({k: v.tolist() for k, v in flat(st).items()}))
    finally:
        os.chdir("/")
        shutil.rmtree(_scratch, ignore_errors=True)


# ---------------------------------------------------------------------------------------------- suite workload
# second workload source: the repository's own tests run under the monitor plugin (oasverif/plugin.py, oasverif/monitors.py);
# only the monitors that serve this property decide here
_cases_generated = cases
_run_case_generated = run_case


def cases(tier, seed):
    return _cases_generated(tier, seed) + [dict(kind="suite", tier=tier, _cost=200)]


def run_case(c):
    if c["kind"] != "suite":
        return _run_case_generated(c)
    from .. import suite

    o = Obs()
    suite.observe(o, "C20", c.get("tier", "quick"), finite=True)
    return o
