"""C01 - analytic component derivatives equal the true derivatives at every input."""
import warnings

import os

import numpy as np

from ..obs import Obs
from .. import meshes as M
from .. import zoo, diff

THOROUGH_REPS = 1  # one pass of the thorough tier already replays ~170 000 Jacobian blocks (about 13 min on 16 cores)
LEVEL = "exploration"
RULE = ("cases = (model) seeded random public-group models (Geometry with every design variable, AeroPoint incl. ground effect / "
        "right halves / projected area / rotational / compressible / several surfaces, SpatialBeamAlone and AerostructPoint with "
        "tube and wingbox, weight relief, fuel, point masses; nx 2..4, ny 2..6 both parities; corner values taper=1, alpha=0, "
        "beta=0, zero twist, k_lam in {0,1}, ref_axis_pos in {0,1}) whose components are captured in situ (class, options, inputs "
        "at which the framework linearises) and replayed one by one - at the captured inputs and at 5 % jittered copies - on a "
        "one-component problem: compute_totals (what an optimiser receives) vs Richardson central differences of the component's "
        "own compute/solve; (standalone) components not inside the standard groups on realistic inputs.  Non-trivial = at least "
        "one block with a non-zero true derivative was decided; distinct = distinct case digests")
ASSUMPTIONS = ["Richardson-extrapolated central differences (3 steps) with their own error bar are the derivative ground truth",
               "entries whose difference quotients do not converge (non-smooth points named in the property) never decide"]
LEVEL_TEXT = ("every component instance of every generated model is re-executed in isolation at the inputs the framework used and at "
              "jittered inputs; the Jacobian it reports through compute_totals (values and sparsity) is compared entry by entry with "
              "extrapolated finite differences under a per-block tolerance of 1e-6 plus 20 error bars")
TECHNIQUE = "runtime monitoring: in-situ capture of component calls + offline replay checker (Richardson finite-difference oracle on the real compute)"

ANCHOR_CLASSES = ["EvalVelMtx", "VLMGeometry", "VortexMesh", "CollocationPoints", "GetVectors", "VLMMtxRHSComp", "SolveMatrix", "EvalVelocities",
                  "PanelForces", "MeshPointForces", "RotationalVelocity", "ConvertVelocity", "LiftDrag", "LiftCoeff2D", "Coeffs", "ViscousDrag", "WaveDrag",
                  "ScaleToPrandtlGlauert", "ScaleFromPrandtlGlauert", "RotateToWindFrame", "RotateFromWindFrame", "Taper", "ScaleX", "Sweep", "ShearX",
                  "Stretch", "ShearY", "Dihedral", "ShearZ", "Rotate", "RadiusComp", "MonotonicConstraint", "GeomMultiUnification", "GeomMultiJoin",
                  "Transform", "Length", "LocalStiff", "LocalStiffPermuted", "LocalStiffTransformed", "FEM", "Weight", "StructuralCG",
                  "StructureWeightLoads", "VonMisesTube", "FailureKS", "SectionPropertiesTube", "Energy", "LoadTransfer", "DisplacementTransfer",
                  "ComputeTransformationMatrix", "MomentCoefficient", "TotalLiftDrag", "BreguetRange", "Equilibrium", "CenterOfGravity", "AtmosComp",
                  "ReynoldsComp"]
REQUIRED_FAMILIES = ["c01/" + c for c in ANCHOR_CLASSES]

# components whose force-point instance evaluates the vortex kernel exactly on its own bound segment: the component function is
# discontinuous there (the composite model is smooth; decided at model level by C02)
FD_DECLARED = {}


def cases(tier, seed):
    rng = np.random.default_rng(1000 + seed)
    out = []
    nmodel = 30 if tier == "quick" else 300
    for k in range(nmodel):
        kind = ["geom", "aero", "aero", "struct", "as", "as"][k % 6]
        out.append(dict(kind="model", model=kind, seed=int(rng.integers(1 << 30)), corner=int(k // 6) % 4, jitter=1 if tier == "quick" else 2, idx=k, big=bool(tier == "thorough" and k % 3 == 0),
                        _cost={"geom": 1, "aero": 4, "struct": 3, "as": 8}[kind]))
    nst = 12 if tier == "quick" else 80
    for k in range(nst):
        out.append(dict(kind="standalone", which=["energy", "monotonic", "multisec", "spar_within_wing", "fuel_vol_delta", "multi_cd", "atmos", "mphys"][k % 8],
                        seed=int(rng.integers(1 << 30)), _cost=1))
    return out


# ---------------------------------------------------------------------------------------------- model generation
def gen_model(c):
    rng = np.random.default_rng(c["seed"])
    corner = c["corner"]
    kind = c["model"]
    ny_choices = [2, 3, 4, 5, 6] if not c.get("big") else [5, 6, 7, 8, 9, 10, 11]

    def spec_for(half, fancy=True):
        ny = int(rng.choice(ny_choices))
        if half == "full":
            ny = max(3, ny | 1)
        spec = M.random_spec(rng, half=half, nx=int(rng.integers(2, 5 if not c.get("big") else 7)), ny=ny)
        spec.update(root_chord=float(np.round(max(spec["root_chord"], spec["span"] / 9.0), 3)), taper=max(spec["taper"], 0.5))
        return spec

    if kind == "geom":
        half = str(rng.choice(["left", "full"]))
        spec = spec_for(half)
        if spec["ny"] < 3:
            spec["ny"] = 3
        ncp = int(rng.integers(1, 5))
        s = dict(name="wing", symmetry=(half == "left"), mesh=spec, ref_axis_pos=[0.25, 0.0, 1.0, float(np.round(rng.random(), 2))][corner],
                 twist_cp=[0.0] * ncp if corner == 1 else [float(x) for x in np.round(rng.uniform(-5, 5, ncp), 2)],
                 chord_cp=[float(x) for x in np.round(rng.uniform(0.7, 1.3, ncp), 3)], xshear_cp=[float(x) for x in np.round(rng.uniform(-0.3, 0.3, ncp), 3)],
                 yshear_cp=[float(x) for x in np.round(rng.uniform(-0.1, 0.1, ncp), 3)], zshear_cp=[float(x) for x in np.round(rng.uniform(-0.3, 0.3, ncp), 3)],
                 sweep=0.0 if corner == 2 else float(np.round(rng.uniform(-10, 30), 2)), dihedral=float(np.round(rng.uniform(-5, 10), 2)),
                 taper=1.0 if corner == 0 else float(np.round(rng.uniform(0.3, 1.2), 3)), span=float(np.round(spec["span"] * rng.uniform(0.8, 1.3), 3)),
                 t_over_c_cp=[0.12])
        return "geom", dict(surface=s)
    if kind == "aero":
        modes = ["plain", "sym", "ground", "compressible", "rotational", "sym_right", "projected"]
        idx_ = c.get("idx", 0)
        mode = modes[(2 * (idx_ // 6) + max(idx_ % 6 - 1, 0)) % len(modes)]  # ordinal of this aero model: every option class is reached deterministically
        symc = mode in ("sym", "ground", "sym_right") or (mode in ("compressible", "projected") and rng.random() < 0.5)
        ns = int(rng.choice([1, 1, 2, 3]))
        if mode in ("rotational", "plain"):
            ns = 3  # running offsets over the surface list only show from the third surface on
        surfs = []
        for s in range(ns):
            half = ("right" if (mode == "sym_right" or rng.random() < 0.3) else "left") if symc else "full"
            spec = spec_for(half)
            spec["offset"] = [float(np.round(s * rng.uniform(3, 8), 3)), 0.0, float(np.round(s * rng.uniform(0.3, 1.5), 3))]
            sd = dict(name="s%d" % s, symmetry=symc, mesh=spec, with_viscous=True, with_wave=True, k_lam=[0.05, 0.0, 1.0, float(np.round(rng.random(), 2))][corner],
                      S_ref_type="projected" if mode == "projected" else "wetted", CL0=0.05, CD0=0.01)
            if mode == "ground":
                sd["groundplane"] = True
            surfs.append(sd)
        flow = dict(alpha=0.0 if corner == 1 else float(np.round(rng.uniform(-5, 10), 2)), beta=0.0 if (symc or corner == 2) else float(np.round(rng.uniform(-8, 8), 2)),
                    v=float(rng.uniform(40, 240)), rho=float(rng.uniform(0.3, 1.2)), Mach_number=float(np.round(rng.uniform(0.3, 0.92), 3)), re=float(10 ** rng.uniform(5, 7)),
                    cg=[float(x) for x in np.round(rng.uniform(-1, 2, 3), 3)])
        if mode == "ground":
            flow["height_agl"] = float(np.round(rng.uniform(5, 40), 2))
        if mode == "rotational":
            flow["omega"] = [float(x) for x in np.round(rng.uniform(-0.3, 0.3, 3), 4)]
        return "aero", dict(surfaces=surfs, flow=flow, compressible=(mode == "compressible"), rotational=(mode == "rotational"))
    # structural models
    half = "left" if rng.random() < 0.6 else "full"
    spec = spec_for(half)
    spec["camber"] = 0.0
    if spec["ny"] < 3:
        spec["ny"] = 3
    fem = "tube" if rng.random() < 0.5 else "wingbox"
    s = dict(name="wing", symmetry=(half == "left"), mesh=spec, fem_model_type=fem, with_viscous=True, with_wave=bool(rng.integers(2)),
             struct_weight_relief=bool(rng.integers(2)), distributed_fuel_weight=bool(fem == "wingbox" and rng.integers(2)),
             exact_failure_constraint=bool(rng.integers(2)), twist_cp=[float(x) for x in np.round(rng.uniform(-3, 3, 2), 2)], t_over_c_cp=[0.12, 0.1],
             fem_origin=[0.35, 0.0, 1.0, float(np.round(rng.random(), 2))][corner])
    if fem == "tube":
        s["thickness_cp"] = [0.015, 0.03]
        if rng.random() < 0.3:
            s["radius_cp"] = [0.08, 0.15]
    npm = int(rng.choice([0, 0, 1, 2]))
    case = dict(surfaces=[s], flow=dict(alpha=float(np.round(rng.uniform(0, 6), 2)), v=float(rng.uniform(60, 160)), rho=float(rng.uniform(0.3, 0.8)),
                                        Mach_number=float(np.round(rng.uniform(0.4, 0.88), 3)), load_factor=float(rng.choice([1.0, 2.5]))),
                compressible=bool(rng.random() < 0.3))
    if npm:
        s["n_point_masses"] = npm
        b2 = spec["span"] / 2
        case.update(point_masses=[float(x) for x in 10 ** rng.uniform(1, 3, npm)],
                    point_mass_locations=[[float(rng.uniform(-1, 2)), float(-rng.uniform(0.1, 0.9) * b2), float(rng.uniform(-0.5, 0.5))] for _ in range(npm)],
                    engine_thrusts=[float(x) for x in 10 ** rng.uniform(2, 4, npm)])
    if kind == "struct":
        s.pop("distributed_fuel_weight", None)
        s["distributed_fuel_weight"] = False
        d = dict(surface=s, load_seed=int(rng.integers(1 << 30)), load_factor=case["flow"]["load_factor"])
        if npm:
            d.update(point_masses=case["point_masses"], point_mass_locations=case["point_mass_locations"], engine_thrusts=case["engine_thrusts"])
        return "struct", d
    return "as", case


def skip_masks(ev):
    """input entries at which the component function is not differentiable (documented exemptions)"""
    name = ev["cls"].__name__
    skip = {}
    if name == "EvalVelMtx" and ev["opts"].get("eval_name") == "force_pts":
        # evaluation points lying on a vortex segment: the vectors to the two end points are anti-parallel
        for w, v in ev["inputs"].items():
            if not w.endswith("_vectors"):
                continue
            r1, r2 = v[:, :, :-1, :], v[:, :, 1:, :]
            n1, n2 = np.linalg.norm(r1, axis=-1), np.linalg.norm(r2, axis=-1)
            on = (n1 * n2 + np.einsum("...k,...k->...", r1, r2)) <= 1e-9 * n1 * n2
            m = np.zeros(v.shape, bool)
            m[:, :, :-1, :] |= on[..., None]
            m[:, :, 1:, :] |= on[..., None]
            skip[w] = m
    if name == "CreateRHS":
        # entries that are zeroed by the tiny-load threshold are not differentiable in the load
        pass
    return skip


def near_wave_onset(inputs):
    """documented non-smooth point: Mach number within 2e-3 of the crest-critical Mach number"""
    w, ls, ch, tc = (np.ravel(inputs[k]) for k in ("widths", "lengths_spanwise", "chords", "t_over_c"))
    area = 0.5 * (ch[:-1] + ch[1:]) * w
    cs = np.sum(w / ls * area) / area.sum()
    t = np.sum(tc * area) / area.sum()
    mcrit = 0.95 / cs - t / cs**2 - float(np.ravel(inputs["CL"])[0]) / (10 * cs**3) - (0.1 / 80.0) ** (1.0 / 3.0)
    return abs(float(np.ravel(inputs["Mach_number"])[0]) - mcrit) < 2e-3


def jittered(name, inputs, rng):
    out = {k: v * (1.0 + 0.05 * rng.uniform(-1, 1, v.shape)) for k, v in inputs.items()}
    if name == "FEM":
        # admissible stiffness input is symmetric per element (the solver relies on it): scale whole element matrices
        k = inputs["local_stiff_transformed"]
        out["local_stiff_transformed"] = k * (1.0 + 0.05 * rng.uniform(-1, 1, (k.shape[0], 1, 1)))
    return out


SCALAR_RANGE = {"Mach_number": (0.3, 0.93), "taper": (0.3, 1.2)}


def far_variant(name, inputs, rng, end=None):
    """a clearly different admissible point: scalar inputs moved by up to -40 % / +10 % (or to one end of their admissible range),
    arrays jittered"""
    out = jittered(name, inputs, rng)
    for k, v in inputs.items():
        if v.size == 1:
            nv = v * rng.uniform(0.6, 1.1)
            lo, hi = SCALAR_RANGE.get(k, (-np.inf, np.inf))
            if end is not None and k in SCALAR_RANGE:
                nv = np.full(v.shape, hi if end == "hi" else lo)
            out[k] = np.clip(nv, lo, hi)
    return out


def replay_events(o, evs, jitter, rng, tags):
    only = [x for x in os.environ.get("VERIF_ONLY_CLASS", "").split(",") if x]  # tools/mutate.py: restrict the replay to some classes
    for ev in evs:
        name = ev["cls"].__name__
        if only and name not in only:
            continue
        fam = "c01/" + name
        skip = skip_masks(ev)
        # the same component instance is linearised at several points in a row (far point, jittered points, then the captured
        # point): a sub-Jacobian left over from an earlier point ("stale non-zero") shows up at the later ones
        variants = []
        if name not in ("EvalVelMtx",):
            if any(k in SCALAR_RANGE for k in ev["inputs"]):
                # both ends of the admissible range of the switching inputs (e.g. above, then below the wave-drag onset)
                variants.append(("far_hi", far_variant(name, ev["inputs"], rng, end="hi")))
                variants.append(("far_lo", far_variant(name, ev["inputs"], rng, end="lo")))
            variants.append(("far", far_variant(name, ev["inputs"], rng)))
            for _ in range(jitter):
                variants.append(("jittered", jittered(name, ev["inputs"], rng)))
            # special values of the scalar inputs, one at a time (exact zero, exact one: where branches, shortcuts and early returns
            # live); points where the component's outputs are not finite are not admissible and are dropped below
            for k_, v_ in ev["inputs"].items():
                if v_.size == 1:
                    for sv in (0.0, 1.0):
                        if float(np.ravel(v_)[0]) != sv:
                            x_ = dict(ev["inputs"])
                            x_[k_] = np.full(v_.shape, sv)
                            variants.append(("special:%s=%g" % (k_, sv), x_))
        variants.append(("captured", ev["inputs"]))
        q = None
        for kind, inputs in variants:
            if name == "WaveDrag" and ev["opts"]["surface"].get("with_wave") and near_wave_onset(inputs):
                o.count("skipped_wave_onset")
                continue
            try:
                if q is None:
                    q = diff.replay_problem(ev["cls"], ev["opts"], inputs, ev["outputs"])
                else:
                    diff.reset_inputs(q, inputs, ev["outputs"])
            except Exception:  # noqa: BLE001
                if kind == "captured":
                    raise
                q = None
                continue  # a perturbed input the component legitimately cannot take (e.g. singular matrix)
            c = q.model.c
            if kind.startswith("special") and not all(np.all(np.isfinite(np.asarray(c._outputs[k_]))) for k_ in c._outputs):
                o.count("special_points_not_finite")
                continue
            rtol = 1e-6
            fd_step = None
            if "fd" in getattr(c, "_approx_schemes", {}):
                rtol = 1e-4  # the component itself declares forward-difference partials (step 1e-6)
                fd_step = 1e-6
            rep = diff.reported_jacobian(q)
            nin = sum(v.size for v in inputs.values())
            fd = diff.fd_jacobian(q, skip=skip if kind == "captured" else None, max_cols=None if nin <= 1200 else 400, rng=rng)
            xs = {k: float(np.abs(v).max()) if np.abs(v).max() > 0 else 1.0 for k, v in inputs.items()}
            diff.compare(o, fam, rep, fd, name, tags=tags + [kind.split(":")[0]] + ([kind] if ":" in kind else []) + opt_tags(ev), rtol=rtol, xscale=xs, fd_step=fd_step,
                         yscale={k: float(np.abs(np.asarray(c._outputs[k])).max()) for k in c._outputs})
            o.count("replays")
            o.count("jacobian_entries_decided", int(sum((np.isfinite(e[0]) & np.isfinite(e[1])).sum() for e in fd.values())))


def opt_tags(ev):
    t = []
    surfs = ev["opts"].get("surfaces") or ([ev["opts"]["surface"]] if "surface" in ev["opts"] else [])
    for s in surfs:
        if not isinstance(s, dict):
            continue
        if s.get("symmetry"):
            t.append("symmetry")
            m = s.get("mesh")
            if m is not None and abs(m[0, 0, 1]) < abs(m[0, -1, 1]):
                t.append("right_half")
        if s.get("groundplane"):
            t.append("groundplane")
    for k in ("eval_name", "rotational", "symmetry", "ref_axis_pos"):
        if k in ev["opts"]:
            t.append("%s=%s" % (k, ev["opts"][k]))
    return sorted(set(t))


def run_model(c, o):
    rng = np.random.default_rng(c["seed"] + 1)
    kind, case = gen_model(c)
    if kind == "geom":
        prob = zoo.build_geom(case)
    elif kind == "aero":
        prob = zoo.build_aero(case, geom=False)
    elif kind == "struct":
        prob = zoo.build_struct(case)
    else:
        prob = zoo.build_as(case)
    zoo.run(prob)
    evs = diff.capture(prob)
    o.info = dict(model=kind, components=len(evs))
    replay_events(o, evs, c["jitter"], rng, [kind])
    o.nontrivial = len(evs) > 0


# ---------------------------------------------------------------------------------------------- standalone components
def run_standalone(c, o):
    rng = np.random.default_rng(c["seed"])
    w = c["which"]
    ny = int(rng.integers(3, 7))
    nx = int(rng.integers(2, 4))
    sym = bool(rng.integers(2))
    mesh = M.build(M.random_spec(rng, half="left" if sym else "full", nx=nx, ny=ny if sym else max(3, ny | 1)))
    nx, ny = mesh.shape[:2]
    surf = zoo.struct_surface(dict(name="wing", symmetry=sym, mesh=dict(array=mesh.tolist()), fem_model_type="wingbox" if w == "fuel_vol_delta" else "tube"))
    evs = []
    if w == "energy":
        from openaerostruct.structures.energy import Energy

        evs.append(dict(cls=Energy, opts=dict(surface=surf), inputs=dict(disp=rng.normal(size=(ny, 6)) * 0.1, loads=rng.normal(size=(ny, 6)) * 1e3), outputs={}))
    elif w == "monotonic":
        from openaerostruct.geometry.monotonic_constraint import MonotonicConstraint

        # symmetric, full-span with an odd and with an even number of spanwise stations (the constant Jacobian is built per parity)
        for sym_, ny_ in ((True, ny), (False, ny | 1), (False, (ny | 1) + 1)):
            for var in ("chord", "thickness"):
                evs.append(dict(cls=MonotonicConstraint, opts=dict(var_name=var, surface=dict(symmetry=sym_, mesh=np.zeros((nx, ny_, 3)))),
                                inputs={var: rng.uniform(0.5, 2.0, ny_)}, outputs={}))
    elif w == "multisec":
        from openaerostruct.geometry.geometry_unification import GeomMultiUnification
        from openaerostruct.geometry.geometry_multi_join import GeomMultiJoin

        for ns in (2, 3, 4):  # the sparsity pattern of the unification Jacobian differs for first / middle / last sections
            parts = []
            for i in range(ns):
                parts.append(M.build(M.random_spec(rng, half="left", nx=nx, ny=int(rng.integers(2, 5)))))
            secs = [{"mesh": p_, "name": "sec%d" % i, "t_over_c_cp": np.array([0.1])} for i, p_ in enumerate(parts)]
            ins = {"sec%d_def_mesh" % i: p_.copy() for i, p_ in enumerate(parts)}
            ins.update({"sec%d_t_over_c" % i: rng.uniform(0.08, 0.15, p_.shape[1] - 1) for i, p_ in enumerate(parts)})
            for shift in (True, False):
                evs.append(dict(cls=GeomMultiUnification, opts=dict(sections=secs, surface_name="surface", shift_uni_mesh=shift), inputs=ins, outputs={}))
            if ns > 1:
                dc = [np.array([int(x) for x in rng.integers(0, 2, 3)]) for _ in range(ns - 1)]
                for d in dc:
                    if d.sum() == 0:
                        d[0] = 1
                evs.append(dict(cls=GeomMultiJoin, opts=dict(sections=secs, dim_constr=dc), inputs={"sec%d_join_mesh" % i: p_.copy() for i, p_ in enumerate(parts)}, outputs={}))
    elif w == "spar_within_wing":
        from openaerostruct.structures.spar_within_wing import SparWithinWing

        evs.append(dict(cls=SparWithinWing, opts=dict(surface=surf), inputs=dict(mesh=mesh.copy(), radius=rng.uniform(0.05, 0.2, ny - 1), t_over_c=rng.uniform(0.08, 0.15, ny - 1)), outputs={}))
    elif w == "fuel_vol_delta":
        from openaerostruct.structures.wingbox_fuel_vol_delta import WingboxFuelVolDelta

        evs.append(dict(cls=WingboxFuelVolDelta, opts=dict(surface=surf), inputs=dict(fuelburn=np.array([rng.uniform(1e3, 5e4)]), fuel_vols=rng.uniform(0.1, 3.0, ny - 1)), outputs={}))
    elif w == "multi_cd":
        from openaerostruct.integration.multipoint_comps import MultiCD

        n = int(rng.integers(1, 5))
        evs.append(dict(cls=MultiCD, opts=dict(n_points=n), inputs={"%d_CD" % i: np.array([rng.uniform(0.01, 0.05)]) for i in range(n)}, outputs={}))
    elif w == "atmos":
        from openaerostruct.common.atmos_comp import AtmosComp
        from openaerostruct.common.reynolds_comp import ReynoldsComp

        for _ in range(4):
            evs.append(dict(cls=AtmosComp, opts={}, inputs=dict(altitude=np.array([rng.uniform(-500, 140000)]), Mach_number=np.array([rng.uniform(0.1, 0.9)])), outputs={}))
        evs.append(dict(cls=ReynoldsComp, opts={}, inputs=dict(rho=np.array([rng.uniform(0.1, 1.2)]), v=np.array([rng.uniform(30, 260)]), mu=np.array([rng.uniform(1.4e-5, 1.8e-5)])), outputs={}))
    elif w == "mphys":
        from openaerostruct.mphys.demux_surface_mesh import DemuxSurfaceMesh
        from openaerostruct.mphys.mux_surface_forces import MuxSurfaceForces

        ns = int(rng.integers(1, 4))
        surfs = [dict(name="s%d" % i, mesh=rng.normal(size=(int(rng.integers(2, 4)), int(rng.integers(2, 5)), 3))) for i in range(ns)]
        n = sum(s["mesh"].size for s in surfs)
        evs.append(dict(cls=DemuxSurfaceMesh, opts=dict(surfaces=surfs), inputs={"x_aero": rng.normal(size=n)}, outputs={}))
        evs.append(dict(cls=MuxSurfaceForces, opts=dict(surfaces=surfs), inputs={s["name"] + "_mesh_point_forces": rng.normal(size=s["mesh"].shape) for s in surfs}, outputs={}))
    replay_events(o, evs, 1, rng, ["standalone", w])
    o.nontrivial = True


def run_case(c):
    o = Obs()
    {"model": run_model, "standalone": run_standalone}[c["kind"]](c, o)
    return o
