"""Derivative oracle: capture of live components, one-component replay problems, Richardson central differences on the
component's own compute/apply_nonlinear, and the comparison rule of DESIGN.md section 2.5."""
import warnings

import numpy as np

_BASE_OPTS = None


def base_opts():
    global _BASE_OPTS
    if _BASE_OPTS is None:
        import openmdao.api as om

        _BASE_OPTS = set(om.ExplicitComponent().options._dict.keys()) | set(om.ImplicitComponent().options._dict.keys())
    return _BASE_OPTS


def declared_options(c):
    out = {}
    for k in c.options._dict:
        if k in base_opts():
            continue
        try:
            out[k] = c.options[k]
        except RuntimeError:
            pass
    return out


def is_oas(c):
    return type(c).__module__.startswith("openaerostruct")


def capture(prob, classes=None):
    """events for every OpenAeroStruct component of a live (already run) problem: class, options, inputs, outputs"""
    from openmdao.core.component import Component

    evs = []
    for c in prob.model.system_iter(recurse=True, typ=Component):
        if not is_oas(c):
            continue
        if classes is not None and type(c).__name__ not in classes:
            continue
        ins = {n: np.array(c._inputs[n]).copy() for n in c._inputs}
        outs = {n: np.array(c._outputs[n]).copy() for n in c._outputs}
        evs.append(dict(cls=type(c), path=c.pathname, opts=declared_options(c), inputs=ins, outputs=outs))
    return evs


class Vec(dict):
    """dict of pre-allocated arrays whose item assignment broadcasts into the storage (the OpenMDAO vector semantics the
    repository's compute methods rely on: outputs[x] = 0.0; outputs[x][:, i, i] -= 2)."""

    def __setitem__(self, k, v):
        if k in self:
            dict.__getitem__(self, k)[...] = v
        else:
            dict.__setitem__(self, k, np.array(v))

    def raw(self, k):
        return dict.__getitem__(self, k)


def replay_problem(cls, opts, inputs, outputs=None, mode="auto"):
    """IndepVarComp -> component, set to the given inputs, run once"""
    import openmdao.api as om
    from openmdao.core.implicitcomponent import ImplicitComponent

    q = om.Problem(reports=False)
    comp = cls(**opts)
    q.model.add_subsystem("c", comp)
    with warnings.catch_warnings():
        warnings.simplefilter("ignore")
        q.setup(force_alloc_complex=True, mode=mode)
        for k, v in inputs.items():
            q.set_val("c." + k, v)
        q.final_setup()
        if outputs is not None and isinstance(comp, ImplicitComponent):
            for k, v in outputs.items():
                q.set_val("c." + k, v)
        q.run_model()
    return q


def reset_inputs(q, inputs, outputs=None):
    """moves a live replay problem to another input point and re-runs it (the same component instance is linearised at several
    points in a row, as an optimiser does)"""
    from openmdao.core.implicitcomponent import ImplicitComponent

    with warnings.catch_warnings():
        warnings.simplefilter("ignore")
        for k, v in inputs.items():
            q.set_val("c." + k, v)
        if outputs is not None and isinstance(q.model.c, ImplicitComponent):
            for k, v in outputs.items():
                q.set_val("c." + k, v)
        q.run_model()
    return q


def reported_jacobian(q):
    """what the framework receives: total derivatives of the one-component problem, {(of, wrt): 2-D array}"""
    c = q.model.c
    ofs = ["c." + n for n in c._outputs]
    wrts = ["c." + n for n in c._inputs]
    with warnings.catch_warnings():
        warnings.simplefilter("ignore")
        J = q.compute_totals(of=ofs, wrt=wrts)
    return {(o[2:], w[2:]): np.array(J[o, w], float) for o in ofs for w in wrts}


def _steps(x, rel):
    sc = np.abs(x).max() if x.size else 0.0
    if sc == 0:
        return np.full(x.shape, rel)
    return rel * np.maximum(np.abs(x), 0.1 * sc)


class FD(dict):
    """{(of, wrt): (estimate, error bar)} plus .curv {(of, wrt): |second derivative| estimate} (from the one-sided mismatch)"""

    def __init__(self):
        super().__init__()
        self.curv = {}
        self.noise = {}  # {of: scatter of the output under 1e-13 relative perturbations of all inputs} (round-off level of the function itself)
        self.h = {}  # {wrt: finest step used per column}
        self.fmag = {}  # {of: |output| at the nominal point}


def fd_jacobian(q, rel=1e-3, skip=None, max_cols=None, rng=None):
    """Richardson-extrapolated central differences of the component's own compute / solve_nonlinear.
    returns {(of, wrt): (estimate, error_bar)}; skip: {wrt_name: boolean mask of entries not to perturb} ->
    those columns are NaN in the estimate."""
    from openmdao.core.implicitcomponent import ImplicitComponent

    c = q.model.c
    implicit = isinstance(c, ImplicitComponent)
    I = Vec()
    O = Vec()
    for n in c._inputs:
        dict.__setitem__(I, n, np.array(c._inputs[n], float).copy())
    for n in c._outputs:
        dict.__setitem__(O, n, np.array(c._outputs[n], float).copy())
    onames = list(c._outputs)
    osizes = [O.raw(n).size for n in onames]

    def f():
        with warnings.catch_warnings():
            warnings.simplefilter("ignore")
            if implicit:
                c.solve_nonlinear(I, O)
            else:
                c.compute(I, O)
        return np.concatenate([O.raw(n).ravel() for n in onames]).copy()

    res = FD()
    # round-off level of the function itself (a cancellation inside compute, e.g. exp(a) - 1 for tiny a, makes it far larger than
    # machine epsilon times the output): scatter of the outputs under perturbations of all inputs in their 13th digit
    f00 = f()
    nrng = np.random.default_rng(12345)
    saved = {w: I.raw(w).copy() for w in c._inputs}
    # perturbation directions in the units of the difference steps (so that exact zeros are probed too)
    dirs = {w: nrng.uniform(0.5, 1.0, saved[w].shape) * _steps(saved[w], 1.0) for w in c._inputs}
    # (a) scatter under perturbations in the 13th digit; (b) fourth differences along a line at three relative spacings (Hamming /
    # More-Wild noise estimate: the smooth part cancels, a staircase or jitter of the computed function remains)
    eta = np.zeros_like(f00)
    for _k in range(3):
        for w in c._inputs:
            I.raw(w)[...] = saved[w] * (1.0 + 1e-13 * nrng.uniform(-1, 1, saved[w].shape))
        with np.errstate(all="ignore"):
            fk = f()
        eta = np.maximum(eta, np.where(np.isfinite(fk - f00), np.abs(fk - f00), 0.0))
    for delta in (1e-11, 1e-8, 1e-6):  # a staircase (rounding of an intermediate like exp(a) for tiny a) shows at a spacing that crosses its steps
        line = []
        for j in range(7):
            for w in c._inputs:
                I.raw(w)[...] = saved[w] + delta * j * dirs[w]
            with np.errstate(all="ignore"):
                line.append(f())
        d4 = np.diff(np.array(line), n=4, axis=0)
        with np.errstate(all="ignore"):
            eta4 = np.max(np.abs(d4), axis=0) / 4.0  # (the fourth difference of independent noise has 8.4 times its standard deviation)
        eta = np.maximum(eta, np.where(np.isfinite(eta4), eta4, 0.0))
    for w in c._inputs:
        I.raw(w)[...] = saved[w]
    f()
    r0 = 0
    for n, sz in zip(onames, osizes):
        res.noise[n] = eta[r0:r0 + sz].copy()
        res.fmag[n] = np.abs(f00[r0:r0 + sz])
        r0 += sz
    for w in c._inputs:
        x = I.raw(w)
        h = _steps(x, rel)
        cols = np.arange(x.size)
        mask = np.zeros(x.size, bool)
        if skip and w in skip:
            mask |= np.asarray(skip[w]).ravel()
        if max_cols is not None and (~mask).sum() > max_cols:
            cand = np.flatnonzero(~mask)
            sel = (rng or np.random.default_rng(0)).choice(cand, max_cols, replace=False)
            keep = np.zeros(x.size, bool)
            keep[sel] = True
            mask |= ~keep
        f0 = f()

        def level(lev, which):
            J = np.full((sum(osizes), x.size), np.nan)
            Sd = np.zeros((sum(osizes), x.size))
            for i in which:
                hh = h.flat[i] / 2**lev
                x0 = x.flat[i]
                x.flat[i] = x0 + hh
                fp = f()
                x.flat[i] = x0 - hh
                fm = f()
                x.flat[i] = x0
                J[:, i] = (fp - fm) / (2 * hh)
                Sd[:, i] = np.abs((fp - f0) - (f0 - fm)) / hh
            return J, Sd

        active = [i for i in cols if not mask[i]]
        Js, side = [], []  # side: mismatch between forward and backward one-sided quotients (detects kinks that central differences hide)
        for lev in range(3):
            J, Sd = level(lev, active)
            Js.append(J)
            side.append(Sd)

        def extrapolate(a, b, c_):
            R1 = (4 * b - a) / 3
            R2 = (4 * c_ - b) / 3
            return (16 * R2 - R1) / 15, np.abs(R2 - R1)

        est, err = extrapolate(Js[0], Js[1], Js[2])
        s0, s2 = side[0], side[2]
        hlast = np.full(x.size, np.nan)
        hlast[active] = h.ravel()[active] / 4.0
        # a column whose extrapolation has not settled to the accuracy the comparison works at (1e-6 of the column's own size) is
        # outside the asymptotic range of its step (a stiffness entry perturbed by far more than its own magnitude; a stress whose
        # sign changes inside the stencil, where sqrt(s^2 + ..) bends sharply): its steps are halved twice more, up to three times,
        # as long as that improves the error bar (round-off takes over eventually); a column that never gets within 2 % does not decide
        big = np.nanmax(np.abs(est), initial=0.0)

        def col_stats():
            with np.errstate(invalid="ignore"):
                cm = np.nanmax(np.abs(est), axis=0, initial=0.0) if est.size else np.zeros(x.size)
                ce = np.nanmax(np.where(np.isfinite(err), err, 0.0), axis=0, initial=0.0) if est.size else np.zeros(x.size)
            return cm, ce

        lev = 3
        frozen = set()
        last = Js[-1]
        for _round in range(3):
            colmax, colerr = col_stats()
            redo = [i for i in active if i not in frozen and colmax[i] > 1e-9 * big and colerr[i] > 1e-6 * colmax[i]]
            if not redo:
                break
            Ja, Sa = level(lev, redo)
            Jb, Sb = level(lev + 1, redo)
            e2, r2 = extrapolate(last[:, redo], Ja[:, redo], Jb[:, redo])
            with np.errstate(invalid="ignore"):
                newerr = np.nanmax(np.where(np.isfinite(r2), r2, 0.0), axis=0, initial=0.0)
            nxt = last.copy()
            for k_, i in enumerate(redo):
                with np.errstate(invalid="ignore"):
                    better = r2[:, k_] < err[:, i]  # entry by entry: rows of one column can differ widely in curvature
                if better.any():
                    est[better, i], err[better, i] = e2[better, k_], r2[better, k_]
                    s0[better, i] = (side[-1][:, i] if lev == 3 else s2[:, i])[better]
                    s2[better, i] = Sb[better, i]
                    hlast[i] = h.ravel()[i] / 2 ** (lev + 1)
                    nxt[:, i] = Jb[:, i]
                if not (better & (r2[:, k_] < 0.5 * np.where(np.isfinite(err[:, i]), err[:, i], np.inf) + 0)).any() and not better.any():
                    frozen.add(i)  # nothing improves any more: round-off has taken over
            last = nxt
            lev += 2
        colmax, colerr = col_stats()
        bad = [i for i in active if colmax[i] > 1e-9 * big and colerr[i] > 0.02 * colmax[i]]
        err[:, bad] = np.inf
        # cross-check with a plain central difference at a step a thousand times smaller (immune to a bend or kink of the function a
        # little away from the point, limited only by the round-off level of the function): where the extrapolated value is outside
        # what that allows, the small-step value and its honest error bar are used instead
        lvl_rows = np.maximum(eta, np.finfo(float).eps * np.abs(f00))
        hs = hlast * 1e-3

        def plain(step):
            J = np.full_like(est, np.nan)
            for i in active:
                x0 = x.flat[i]
                x.flat[i] = x0 + step[i]
                fp = f()
                x.flat[i] = x0 - step[i]
                fm = f()
                x.flat[i] = x0
                J[:, i] = (fp - fm) / (2 * step[i])
            return J

        Jt, Jt2 = plain(hs), plain(2.0 * hs)
        with np.errstate(invalid="ignore", divide="ignore"):
            nb = 4.0 * lvl_rows[:, None] / hs[None, :]
            spread = np.abs(Jt - Jt2)
            # the two small-step values must agree with each other (they do not where the computed function is a staircase at that
            # scale, e.g. exp(a) - 1 for a ~ 1e-11: then the small steps say nothing)
            selfcons = spread <= 1e-4 * np.maximum(np.abs(Jt), np.abs(Jt2)) + 1e-9 * colmax[None, :]
            off = selfcons & (np.abs(est - Jt) > 3.0 * nb + 3.0 * spread + 20.0 * np.where(np.isfinite(err), err, 0.0) + 1e-6 * colmax[None, :])
        # a computed function that does not move at all over a step across which its slope predicts a change far above its own
        # resolution is a staircase there (rounding of an intermediate quantity, e.g. -2 + cos(rx) + cos(rz) for tiny angles):
        # differences at that scale say nothing about its slope
        tt = hlast * 1e-6
        stair_all = np.zeros(est.shape, bool)
        for i in active:
            x0 = x.flat[i]
            x.flat[i] = x0 + tt[i]
            ft = f()
            x.flat[i] = x0
            with np.errstate(invalid="ignore"):
                pred = np.abs(est[:, i]) * tt[i]
                # (on a staircase the output moves by zero or by a whole stair, not by what the slope predicts)
                stair_all[:, i] = (np.abs((ft - f00) - est[:, i] * tt[i]) > 0.5 * pred) & (pred > 100.0 * np.finfo(float).eps * (np.abs(f00) + np.abs(est[:, i]) * hs[i]))
        # small steps that do not move the output at all carry no information either
        off &= np.isfinite(Jt) & ~stair_all & ((Jt != 0.0) | (Jt2 != 0.0))
        if off.any():
            est = np.where(off, Jt, est)
            err = np.where(off, nb + 3.0 * spread, err)
        # ... and the height of the stairs (round-off of an intermediate of unknown size) is unknown: staircase entries do not decide
        err = np.where(stair_all, np.inf, err)
        res.replaced = getattr(res, "replaced", 0) + int(off.sum())
        res.stairs = getattr(res, "stairs", 0) + int(stair_all.sum())
        f()  # restore outputs at the nominal point
        # smooth: the one-sided mismatch is h*f'' and falls by 4 between h and h/4; at a kink it stays
        kink = (s2 > 0.5 * s0) & (s2 > 1e-4 * np.maximum(np.nanmax(np.abs(est), initial=0.0), 1e-300))
        err = np.where(kink, np.inf, err)
        res.h[w] = hlast.copy()
        with np.errstate(invalid="ignore", divide="ignore"):
            curv = s2 / hlast[None, :]  # one-sided mismatch = |f''| * step
        r0 = 0
        for n, sz in zip(onames, osizes):
            res[(n, w)] = (est[r0:r0 + sz], err[r0:r0 + sz])
            res.curv[(n, w)] = curv[r0:r0 + sz]
            r0 += sz
    return res


def compare(o, fam, rep, fd, cls_name, tags=(), rtol=1e-6, nonsmooth_frac=0.02, loose=None, xscale=None, yscale=None, fd_step=None):
    """decision rule: an entry disagrees only if |a-d| > rtol*S + 20*e_fd with S the block scale; entries whose FD estimates
    do not converge (e_fd > 1e-3*S) are counted as non-smooth and never decide."""
    nbad = 0
    # sensitivity of each output in its own units, max over inputs of |dy/dx| * |x|: a block that is round-off relative to it
    # (1e-12) is treated as an exact zero
    row = dict(yscale or {})
    for (of, wrt), (est, err) in fd.items():
        v = ~np.isnan(est)
        if v.any():
            xs = (xscale or {}).get(wrt, 1.0) or 1.0
            row[of] = max(row.get(of, 0.0), max(np.abs(np.asarray(rep[(of, wrt)]).reshape(est.shape)[v]).max(), np.abs(est[v]).max()) * xs)
    for (of, wrt), (est, err) in fd.items():
        a = rep[(of, wrt)]
        if a.shape != est.shape:
            a = a.reshape(est.shape)
        valid = ~np.isnan(est)
        if not valid.any():
            continue
        S = max(np.abs(a[valid]).max(), np.abs(est[valid]).max())
        if S == 0:
            o._fam(fam, 0.0)
            continue
        rt = rtol if loose is None else loose.get((of, wrt), loose.get(wrt, rtol))
        unreliable = valid & (err > 1e-3 * S)
        good = valid & ~unreliable
        floor = 1e-12 * row.get(of, 0.0) / ((xscale or {}).get(wrt, 1.0) or 1.0)
        tol = rt * S + 20 * err + floor
        if of in getattr(fd, "noise", {}) and wrt in getattr(fd, "h", {}):
            # finite differences cannot resolve the function below its own round-off level divided by the step
            with np.errstate(invalid="ignore", divide="ignore"):
                # (measured round-off level of the function, and never less than the resolution of double precision itself)
                lvl = np.maximum(np.asarray(fd.noise[of]).ravel(), np.finfo(float).eps * np.asarray(fd.fmag.get(of, 0.0)).ravel())
                nf = 10.0 * lvl[:, None] / np.asarray(fd.h[wrt]).ravel()[None, :]
            tol = tol + np.where(np.isfinite(nf), nf, 0.0).reshape(est.shape)
        if fd_step is not None and (of, wrt) in getattr(fd, "curv", {}):
            # the component itself declares one-sided finite-difference partials with step fd_step: their truncation error is
            # |f''| fd_step / 2 (allowed twice over), with |f''| measured here
            cv = np.asarray(fd.curv[(of, wrt)]).reshape(est.shape)
            tol = tol + np.where(np.isfinite(cv), cv, 0.0) * fd_step
        diff = np.abs(a - est)
        margin = float((diff[good] / tol[good]).max()) if good.any() else 0.0
        o._fam(fam, margin)
        frac = unreliable.sum() / max(valid.sum(), 1)
        if frac > nonsmooth_frac:
            o.info.setdefault("nonsmooth_blocks", []).append("%s d%s/d%s %.0f%%" % (cls_name, of, wrt, 100 * frac))
        if margin > 1.0:
            k = np.argmax(np.where(good, diff / tol, 0))
            i, j = np.unravel_index(k, a.shape)
            kind = "missing non-zero" if a[i, j] == 0 else ("spurious/misplaced non-zero" if abs(est[i, j]) < 1e-9 * S else "wrong value")
            o.violate(fam, "%s d(%s)/d(%s)[%d,%d]: reported %.8g, true %.8g +- %.1e (block scale %.3g): %s" % (cls_name, of, wrt, i, j, a[i, j], est[i, j], err[i, j], S, kind),
                      err=float(diff[i, j]), tol=float(tol[i, j]), tags=list(tags) + [cls_name, "of=" + of, "wrt=" + wrt], kind=kind)
            nbad += 1
    return nbad
