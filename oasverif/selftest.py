"""Self tests of the reference models against closed forms (run as setup_cmd)."""
import sys

import numpy as np


def main():
    from . import env

    env.assert_tree()
    from .refs import refframe, refvlm

    ok = True
    # Biot-Savart: infinite straight line limit, v = 1/(2 pi h)
    P = np.array([[0.0, 0.0, 1.0]])
    v = refvlm.seg(P, np.array([0.0, -1e7, 0.0]), np.array([0.0, 1e7, 0.0]))
    ok &= abs(np.linalg.norm(v) - 1 / (2 * np.pi)) < 1e-9
    v2 = refvlm.semi(P, np.array([0.0, 0.0, 0.0]), np.array([0.0, 1.0, 0.0]))
    ok &= abs(np.linalg.norm(v2) - 1 / (4 * np.pi)) < 1e-12
    # cantilever closed forms
    n = 6
    L = 3.0
    nodes = np.zeros((n, 3))
    nodes[:, 1] = np.linspace(0, L, n)
    E, G, A, I, J = 7e10, 3e10, 1e-3, 2e-6, 4e-6
    loads = np.zeros((n, 6))
    loads[-1, 2] = 100.0
    u, K = refframe.solve(nodes, E, G, np.full(n - 1, A), np.full(n - 1, I), np.full(n - 1, I), np.full(n - 1, J), loads, 0)
    ok &= abs(u[-1, 2] - 100 * L**3 / (3 * E * I)) < 1e-9 * abs(u[-1, 2])
    print("selftest", "ok" if ok else "FAILED")
    return 0 if ok else 2


if __name__ == "__main__":
    sys.exit(main())
