"""Environment guard: make sure the tree under test is the one in $OAS_REPO (default /repo)."""
import os
import sys

REPO = os.path.realpath(os.environ.get("OAS_REPO", "/repo"))
VERIF = os.path.dirname(os.path.dirname(os.path.abspath(__file__)))


class HarnessError(Exception):
    """Something is wrong with the harness/environment (never a verdict about the repository)."""


def prepare():
    """Force the working tree first on sys.path and quiet OpenMDAO.  Must run before importing OAS."""
    os.environ.setdefault("OPENMDAO_REPORTS", "0")
    os.environ.setdefault("OMP_NUM_THREADS", "1")
    if sys.path[0] != REPO:
        sys.path.insert(0, REPO)
    if VERIF not in sys.path:
        sys.path.insert(1, VERIF)


def assert_tree():
    prepare()
    import openaerostruct

    f = os.path.realpath(openaerostruct.__file__)
    if not f.startswith(REPO + os.sep):
        raise HarnessError("openaerostruct imported from %s, expected under %s" % (f, REPO))
    return f


def in_repo(path):
    try:
        return os.path.realpath(path).startswith(REPO + os.sep)
    except Exception:
        return False
