"""Second workload source: the repository's own integration tests run under the monitor plugin (oasverif.plugin).
Their assertions are ignored; only what the monitors observed on the component calls counts."""
import glob
import json
import os
import shutil
import subprocess
import sys
import tempfile

from . import env

QUICK_TESTS = ["test_aerostruct.py", "test_aero_analysis.py", "test_aerostruct_wingbox_analysis.py", "test_multipoint_aero.py", "test_simple_rect_AS.py",
               "test_aero_analysis_no_symmetry_wavedrag.py", "test_struct_point_masses.py", "test_aerostruct_wingbox_+weight_analysis.py",
               "test_aero_ground_effect_right.py", "test_aerostruct_analysis_compressible.py", "test_wingbox_distributed_fuel.py"]


def run(tier):
    tdir = os.path.join(env.REPO, "tests", "integration_tests")
    if tier == "quick":
        targets = [os.path.join(tdir, t) for t in QUICK_TESTS if os.path.exists(os.path.join(tdir, t))]
        nproc = 6
    else:
        targets = [tdir, os.path.join(env.REPO, "tests", "structures_tests"), os.path.join(env.REPO, "tests", "aerodynamics_tests"),
                   os.path.join(env.REPO, "tests", "functionals_tests"), os.path.join(env.REPO, "tests", "transfer_tests")]
        nproc = 10
    scratch = tempfile.mkdtemp(prefix="oasverif_suite_")
    out = os.path.join(scratch, "out")
    e = dict(os.environ)
    e.update(OASVERIF_PLUGIN_OUT=out, PYTHONPATH=env.REPO + os.pathsep + env.VERIF, OPENMDAO_REPORTS="0", OMP_NUM_THREADS="1", OAS_REPO=env.REPO)
    cmd = [sys.executable, "-m", "pytest"] + targets + ["-p", "oasverif.plugin", "-p", "no:cacheprovider", "-q", "-n", str(nproc), "--timeout=900"]
    try:
        p = subprocess.run(cmd, cwd=scratch, env=e, capture_output=True, text=True, timeout=900 if tier == "quick" else 3000)
        tail = (p.stdout or "")[-400:]
    except subprocess.TimeoutExpired:
        tail = "TIMEOUT"
    merged = dict(calls={}, evals={}, violations=[], worst={}, mutations={}, nonfinite={}, tests=0, tail=tail)
    for f in glob.glob(out + ".*.json"):
        d = json.load(open(f))
        merged["tests"] += d["tests"]
        for k, v in d["calls"].items():
            merged["calls"][k] = merged["calls"].get(k, 0) + v
        for k, v in d["mutations"].items():
            merged["mutations"][k] = merged["mutations"].get(k, 0) + v
        for k, v in d["nonfinite"].items():
            merged["nonfinite"][k] = merged["nonfinite"].get(k, 0) + v
        for cls, name, prop, status, n in d["monitor_evals"]:
            key = (cls, name, prop, status)
            merged["evals"][key] = merged["evals"].get(key, 0) + n
        for k, v in d["worst"].items():
            merged["worst"][k] = max(merged["worst"].get(k, 0.0), v)
        merged["violations"] += d["violations"]
    shutil.rmtree(scratch, ignore_errors=True)
    return merged


def observe(o, prop, tier, guard=False, finite=False):
    """folds what the monitors of property `prop` observed on the repository's tests into the case's observations"""
    m = run(tier)
    total = sum(m["calls"].values())
    o.count("suite_tests_run", m["tests"])
    o.count("suite_component_calls_monitored", total)
    o.count("suite_component_classes", len(m["calls"]))
    if total == 0:
        o.unsure("the monitored test run produced no component calls: " + m["tail"])
        return m
    for (cls, name, p_, status), n in m["evals"].items():
        if p_ != prop:
            continue
        fam = "suite/%s/%s" % (cls, name)
        f = o.fam.setdefault(fam, {"n": 0, "worst": 0.0})
        if status == "ok":
            f["n"] += n
            f["worst"] = max(f["worst"], m["worst"].get("%s/%s" % (cls, name), 0.0))
        else:
            o.info.setdefault("suite_monitor_errors", {})[fam] = status
    seen = set()
    for v in m["violations"]:
        if v["kind"] == "monitor" and v["property"] == prop:
            key = (v["cls"], v["monitor"], v["test"])
            if key in seen:
                continue
            seen.add(key)
            o.violate("suite/%s/%s" % (v["cls"], v["monitor"]), "%s (%s) in %s [%s]: error %.3e > tol %.3e" % (v["what"], v["component"], v["test"], v["cls"], v["err"], v["tol"]),
                      err=v["err"], tol=v["tol"], tags=["suite", "class=" + v["cls"]])
    if guard:
        o._fam("suite/guard/inputs_unmodified", float("inf") if m["mutations"] else 0.0)
        o.fam["suite/guard/inputs_unmodified"]["n"] = total
        for cls, n in m["mutations"].items():
            o.violate("guard/inputs_unmodified", "%s.compute modified its own input vector in place (%d calls in the repository's tests)" % (cls, n), err=float(n), tol=0.0,
                      tags=["suite", "class=" + cls])
    if finite:
        o._fam("suite/guard/outputs_finite", float("inf") if m["nonfinite"] else 0.0)
        o.fam["suite/guard/outputs_finite"]["n"] = total
        for cls, n in m["nonfinite"].items():
            o.violate("suite/guard/outputs_finite", "%s produced non-finite outputs (%d calls in the repository's tests)" % (cls, n), err=float(n), tol=0.0, tags=["suite", "class=" + cls])
    o.nontrivial = True
    return m
