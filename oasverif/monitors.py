"""Class-keyed invariant monitors evaluated on every component call of a monitored workload (the repository's own tests and
examples run under oasverif.plugin).  Each monitor is a pure function of the call's inputs/outputs returning None (not
applicable) or (error, tolerance, message); it serves exactly one property."""
import numpy as np

G0 = 9.80665
MONITORS = {}  # class name -> list of (monitor name, property id, function)


def monitor(cls, name, prop):
    def deco(f):
        MONITORS.setdefault(cls, []).append((name, prop, f))
        return f

    return deco


def _rel(a, b, scale=None):
    a = np.asarray(a, float)
    b = np.asarray(b, float)
    sc = max(np.abs(a).max(initial=0.0), np.abs(b).max(initial=0.0)) if scale is None else scale
    return float(np.abs(a - b).max(initial=0.0)), sc


def _surfaces(c):
    return c.options["surfaces"] if "surfaces" in c.options else [c.options["surface"]]


# ---------------------------------------------------------------------------------------------- C05
@monitor("SolveMatrix", "tangency_system_solved", "C05")
def _solve(c, i, o):
    res = np.asarray(i["mtx"]) @ np.asarray(o["circulations"]) - np.asarray(i["rhs"])
    sc = np.abs(i["mtx"]).sum(axis=1).max() * max(np.abs(o["circulations"]).max(initial=0.0), 1e-300)
    return float(np.abs(res).max(initial=0.0)), 1e-9 * sc, "mtx.circulations - rhs"


@monitor("PanelForces", "kutta_joukowski", "C05")
def _kj(c, i, o):
    F = float(np.ravel(i["rho"])[0]) * np.asarray(i["horseshoe_circulations"])[:, None] * np.cross(i["force_pts_velocities"], i["bound_vecs"])
    e, sc = _rel(o["panel_forces"], F)
    return e, 1e-11 * sc + 1e-300, "F = rho Gamma V x l"


@monitor("HorseshoeCirculations", "chordwise_differencing", "C05")
def _hs(c, i, o):
    g = np.asarray(i["circulations"])
    h = np.asarray(o["horseshoe_circulations"])
    exp = []
    k = 0
    for s in _surfaces(c):
        nx, ny = s["mesh"].shape[:2]
        blk = g[k:k + (nx - 1) * (ny - 1)].reshape(nx - 1, ny - 1)
        e = blk.copy()
        e[1:] -= blk[:-1]
        exp.append(e.ravel())
        k += (nx - 1) * (ny - 1)
    exp = np.concatenate(exp)
    e, sc = _rel(h, exp)
    return e, 1e-12 * sc + 1e-300, "Gamma_h(i,j) = Gamma(i,j) - Gamma(i-1,j)"


@monitor("PanelForcesSurf", "partition_of_panel_forces", "C19")
def _pfs(c, i, o):
    pf = np.asarray(i["panel_forces"])
    k = 0
    worst = 0.0
    for s in _surfaces(c):
        nx, ny = s["mesh"].shape[:2]
        n = (nx - 1) * (ny - 1)
        worst = max(worst, float(np.abs(np.asarray(o[s["name"] + "_sec_forces"]).reshape(-1, 3) - pf[k:k + n]).max(initial=0.0)))
        k += n
    return worst, 0.0, "per-surface blocks are a partition of panel_forces"


# ---------------------------------------------------------------------------------------------- C11
@monitor("LoadTransfer", "force_and_moment_conserved", "C11")
def _lt(c, i, o):
    mesh = np.asarray(i["def_mesh"])
    sf = np.asarray(i["sec_forces"])
    loads = np.asarray(o["loads"])
    q = 0.75 * mesh[:-1] + 0.25 * mesh[1:]
    a = 0.5 * (q[:, :-1] + q[:, 1:])
    w = c.fem_origin
    s_pts = (1 - w) * mesh[0] + w * mesh[-1]
    P = mesh.reshape(-1, 3).mean(axis=0) + np.array([1.3, -0.7, 0.4]) * np.ptp(mesh[:, :, 1])
    F0 = sf.reshape(-1, 3).sum(axis=0)
    M0 = np.cross(a.reshape(-1, 3) - P, sf.reshape(-1, 3)).sum(axis=0)
    F1 = loads[:, :3].sum(axis=0)
    M1 = np.cross(s_pts - P, loads[:, :3]).sum(axis=0) + loads[:, 3:].sum(axis=0)
    fs = np.abs(sf).sum() + 1e-300
    span = max(np.ptp(mesh[:, :, 1]), np.ptp(mesh[:, :, 0]))
    e = max(np.abs(F1 - F0).max() / fs, np.abs(M1 - M0).max() / (fs * 3 * span))
    return float(e), 1e-11, "total force and moment of the nodal loads vs the panel forces"


@monitor("MeshPointForces", "force_and_moment_conserved", "C11")
def _mpf(c, i, o):
    worst = 0.0
    for s in _surfaces(c):
        n = s["name"]
        sf = np.asarray(i[n + "_sec_forces"])
        mpf = np.asarray(o[n + "_mesh_point_forces"])
        e = np.abs(mpf.reshape(-1, 3).sum(axis=0) - sf.reshape(-1, 3).sum(axis=0)).max() / (np.abs(sf).sum() + 1e-300)
        worst = max(worst, float(e))
    return worst, 1e-12, "total mesh-node force vs total sectional force"


# ---------------------------------------------------------------------------------------------- C15
@monitor("VonMisesTube", "nonnegative", "C15")
@monitor("VonMisesWingbox", "nonnegative", "C15")
def _vm(c, i, o):
    v = np.asarray(o["vonmises"])
    if np.iscomplexobj(v):
        return None
    return float(max(0.0, -v.min(initial=0.0))), 0.0, "von Mises stress >= 0"


@monitor("FailureKS", "ks_bounds", "C15")
def _ks(c, i, o):
    v = np.asarray(i["vonmises"])
    if np.iscomplexobj(v) or np.iscomplexobj(np.asarray(o["failure"])):
        return None
    f = v.real / c.sigma - 1.0
    ks = float(np.ravel(o["failure"])[0])
    e = max(f.max() - ks, ks - (f.max() + np.log(f.size) / c.rho), 0.0)
    return float(e), 1e-12 * max(1.0, abs(f.max())), "max <= KS <= max + ln N / rho"


@monitor("FailureExact", "definition", "C15")
def _fe(c, i, o):
    e, sc = _rel(o["failure"], np.asarray(i["vonmises"]) / c.sigma - 1.0)
    return e, 1e-12 * max(sc, 1.0), "failure = sigma / yield - 1"


# ---------------------------------------------------------------------------------------------- C16
@monitor("Weight", "mass_formula", "C16")
def _w(c, i, o):
    s = c.surface
    nodes = np.asarray(i["nodes"])
    if np.iscomplexobj(nodes) or np.iscomplexobj(np.asarray(i["A"])):
        return None
    em = s["mrho"] * np.asarray(i["A"]) * np.linalg.norm(np.diff(nodes, axis=0), axis=1) * s["wing_weight_ratio"]
    m = em.sum() * (2.0 if s["symmetry"] else 1.0)
    e1, sc1 = _rel(o["element_mass"], em)
    e2, sc2 = _rel(o["structural_mass"], m)
    return max(e1 / (sc1 + 1e-300), e2 / (sc2 + 1e-300)), 1e-12, "mass = rho A L wwr (x2 symmetric)"


@monitor("TotalLoads", "sum_of_sources", "C16")
def _tl(c, i, o):
    tot = np.asarray(i["loads"]).copy()
    for k in ("struct_weight_loads", "fuel_weight_loads", "loads_from_point_masses", "loads_from_thrusts"):
        if k in i:
            tot = tot + np.asarray(i[k])
    e, sc = _rel(o["total_loads"], tot)
    return e, 1e-12 * sc + 1e-300, "total_loads = sum of the load sources"


@monitor("StructureWeightLoads", "resultant", "C16")
def _swl(c, i, o):
    ld = np.asarray(o["struct_weight_loads"])
    if np.iscomplexobj(ld) or np.iscomplexobj(np.asarray(i["nodes"])):
        return None
    W = np.asarray(i["element_mass"]).real * G0 * float(np.ravel(i["load_factor"])[0].real)
    nodes = np.asarray(i["nodes"]).real
    mid = 0.5 * (nodes[1:] + nodes[:-1])
    P = nodes.mean(axis=0) + np.array([0.9, 0.4, -0.6]) * (np.ptp(nodes[:, 1]) + 1.0)
    F = ld[:, :3].sum(axis=0)
    Mo = np.cross(nodes - P, ld[:, :3]).sum(axis=0) + ld[:, 3:].sum(axis=0)
    Mr = np.cross(mid - P, np.stack([0 * W, 0 * W, -W], axis=1)).sum(axis=0)
    fs = np.abs(W).sum() + 1e-300
    e = max(np.abs(F - np.array([0, 0, -W.sum()])).max() / fs, np.abs(Mo - Mr).max() / (fs * (np.ptp(nodes[:, 1]) + 1.0) * 3))
    return float(e), 1e-11, "distributed weight loads: total force and moment"


# ---------------------------------------------------------------------------------------------- C17 / C06 / C18
@monitor("Coeffs", "normalisation", "C06")
def _co(c, i, o):
    q = 0.5 * float(np.ravel(i["rho"])[0]) * float(np.ravel(i["v"])[0]) ** 2 * float(np.ravel(i["S_ref"])[0])
    e = max(abs(float(np.ravel(o["CL1"])[0]) - float(np.ravel(i["L"])[0]) / q), abs(float(np.ravel(o["CDi"])[0]) - float(np.ravel(i["D"])[0]) / q))
    sc = max(abs(float(np.ravel(i["L"])[0])), abs(float(np.ravel(i["D"])[0]))) / q
    return e, 1e-12 * sc + 1e-300, "CL1 = L / (q S), CDi = D / (q S)"


@monitor("LiftDrag", "wind_axis_decomposition", "C06")
def _ld(c, i, o):
    al, be = np.deg2rad(float(np.ravel(i["alpha"])[0])), np.deg2rad(float(np.ravel(i["beta"])[0]))
    F = np.asarray(i["sec_forces"]).reshape(-1, 3).sum(axis=0) * (2.0 if c.surface["symmetry"] else 1.0)
    L = -F[0] * np.sin(al) + F[2] * np.cos(al)
    D = F[0] * np.cos(al) * np.cos(be) - F[1] * np.sin(be) + F[2] * np.sin(al) * np.cos(be)
    fs = np.abs(np.asarray(i["sec_forces"])).sum() + 1e-300
    e = max(abs(float(np.ravel(o["L"])[0]) - L), abs(float(np.ravel(o["D"])[0]) - D)) / fs
    return float(e), 1e-11, "L, D are the wind-axis components of the summed panel forces"


@monitor("TotalLiftDrag", "area_weighting", "C17")
def _tld(c, i, o):
    S = float(np.ravel(i["S_ref_total"])[0])
    q = 0.5 * float(np.ravel(i["rho"])[0]) * float(np.ravel(i["v"])[0]) ** 2
    scl = sum(float(np.ravel(i[s["name"] + "_CL"])[0]) * float(np.ravel(i[s["name"] + "_S_ref"])[0]) for s in _surfaces(c))
    scd = sum(float(np.ravel(i[s["name"] + "_CD"])[0]) * float(np.ravel(i[s["name"] + "_S_ref"])[0]) for s in _surfaces(c))
    e = max(abs(float(np.ravel(o["CL"])[0]) - scl / S), abs(float(np.ravel(o["CD"])[0]) - scd / S), abs(float(np.ravel(o["L"])[0]) - q * scl) / (abs(q * scl) + 1e-300),
            abs(float(np.ravel(o["D"])[0]) - q * scd) / (abs(q * scd) + 1e-300))
    return float(e), 1e-12 * max(1.0, abs(scl / S)), "area-weighted coefficients, L = q S CL"


@monitor("TotalDrag", "sum_of_components", "C18")
def _td(c, i, o):
    cd = float(np.ravel(i["CDi"])[0]) + float(np.ravel(i["CDv"])[0]) + float(np.ravel(i["CDw"])[0]) + c.CD0
    return abs(float(np.ravel(o["CD"])[0]) - cd), 1e-13 * max(1.0, abs(cd)), "CD = CDi + CDv + CDw + CD0"


@monitor("ViscousDrag", "switch_and_sign", "C18")
def _vd(c, i, o):
    v = np.ravel(o["CDv"])[0]
    if np.iscomplexobj(np.asarray(o["CDv"])):
        return None
    v = float(v)
    if not c.with_viscous:
        return abs(v), 0.0, "CDv exactly zero when viscous drag is off"
    return max(0.0, -v), 0.0, "CDv > 0"


@monitor("WaveDrag", "switch_and_sign", "C18")
def _wd(c, i, o):
    if np.iscomplexobj(np.asarray(o["CDw"])):
        return None
    v = float(np.ravel(o["CDw"])[0])
    if not c.with_wave:
        return abs(v), 0.0, "CDw exactly zero when wave drag is off"
    return max(0.0, -v), 0.0, "CDw >= 0"


@monitor("Equilibrium", "definition", "C17")
def _eq(c, i, o):
    g = G0 * float(np.ravel(i["load_factor"])[0])
    ms = sum(float(np.ravel(i[s["name"] + "_structural_mass"])[0]) for s in _surfaces(c))
    W = (ms + float(np.ravel(i["fuelburn"])[0]) + float(np.ravel(i["W0"])[0])) * g
    L = 0.5 * float(np.ravel(i["rho"])[0]) * float(np.ravel(i["v"])[0]) ** 2 * float(np.ravel(i["S_ref_total"])[0]) * float(np.ravel(i["CL"])[0])
    e = max(abs(float(np.ravel(o["total_weight"])[0]) - W) / abs(W), abs(float(np.ravel(o["L_equals_W"])[0]) - (1 - L / W)))
    return float(e), 1e-12 * max(1.0, abs(L / W)), "L_equals_W = 1 - L / W"


@monitor("BreguetRange", "definition", "C17")
def _br(c, i, o):
    f = lambda k: float(np.ravel(i[k])[0])  # noqa: E731
    ms = sum(float(np.ravel(i[s["name"] + "_structural_mass"])[0]) for s in _surfaces(c))
    fb = (f("W0") + ms) * (np.exp(f("R") * f("CT") / f("speed_of_sound") / f("Mach_number") * f("CD") / f("CL")) - 1)
    if not np.isfinite(fb):
        return None
    return abs(float(np.ravel(o["fuelburn"])[0]) - fb), 1e-11 * abs(fb) + 1e-300, "Breguet range equation"
