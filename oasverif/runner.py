"""Check runner: generates the cases of a property, farms them to worker subprocesses, classifies what the
monitors reported (violation / known finding / inconclusive / held) and writes the evidence file.

Exit codes: 0 held on everything observed, 1 violation (prints VIOLATION lines), 2 inconclusive / harness error.
"""
import concurrent.futures as cf
import importlib
import json
import os
import subprocess
import sys
import tempfile
import time

from . import env
from .obs import digest, jsonable

HERE = env.VERIF
REACH = {}  # repository file -> set of executed line numbers, merged over all workers of this run


def _spawn(prop, batch, timeout):
    """Run one batch in a subprocess; returns {idx: result or None (not finished)} and a note."""
    d = tempfile.mkdtemp(prefix="oasv_b_")
    inf = os.path.join(d, "in.json")
    outf = os.path.join(d, "out.jsonl")
    json.dump(batch, open(inf, "w"))
    open(outf, "w").close()
    note = None
    try:
        p = subprocess.run(
            [sys.executable, "-m", "oasverif.worker", prop, inf, outf],
            cwd=HERE,
            timeout=timeout,
            stdout=subprocess.PIPE,
            stderr=subprocess.STDOUT,
            text=True,
        )
        if p.returncode != 0:
            note = "worker exit %d: %s" % (p.returncode, (p.stdout or "")[-1500:])
    except subprocess.TimeoutExpired:
        note = "worker timeout after %ds" % timeout
    res = {}
    started = set()
    try:
        for line in open(outf):
            try:
                rec = json.loads(line)
            except ValueError:
                continue
            if "reach" in rec:
                for fn, lines in rec["reach"].items():
                    REACH.setdefault(fn, set()).update(lines)
            elif rec.get("start"):
                started.add(rec["i"])
            else:
                res[rec["i"]] = rec["result"]
    finally:
        import shutil

        shutil.rmtree(d, ignore_errors=True)
    return res, started, note


def farm(prop, cases, jobs, batch_timeout, case_timeout):
    n = len(cases)
    results = [None] * n
    notes = []
    weights = [float(c.get("_cost", 1.0)) for c in cases]
    order = sorted(range(n), key=lambda i: -weights[i])
    nb = max(1, min(n, jobs * 3))
    batches = [[] for _ in range(nb)]
    loads = [0.0] * nb
    for i in order:  # greedy balance
        k = loads.index(min(loads))
        batches[k].append([i, cases[i]])
        loads[k] += weights[i]
    batches = [b for b in batches if b]
    with cf.ThreadPoolExecutor(max_workers=jobs) as ex:
        futs = {ex.submit(_spawn, prop, b, batch_timeout): b for b in batches}
        retry = []
        for f in cf.as_completed(futs):
            b = futs[f]
            res, started, note = f.result()
            for i, c in b:
                if i in res:
                    results[i] = res[i]
                else:
                    retry.append([i, c, (i in started), note])
        # cases that did not finish: the one that was running is retried alone with its own timeout
        futs2 = {ex.submit(_spawn, prop, [[i, c]], case_timeout): (i, note) for i, c, _s, note in retry}
        for f in cf.as_completed(futs2):
            i, note = futs2[f]
            res, started, note2 = f.result()
            if i in res:
                results[i] = res[i]
            else:
                results[i] = {
                    "nontrivial": False,
                    "families": {},
                    "violations": [],
                    "monitors": {},
                    "info": {},
                    "inconclusive": ["case did not finish: %s / %s" % (note, note2)],
                    "wall_s": case_timeout,
                }
                notes.append("case %d did not finish: %s" % (i, note2))
    return results, notes


def _executable_lines(path):
    """line numbers that carry code (from the compiled code objects), for the executed/executable ratio"""
    import types

    try:
        code = compile(open(path).read(), path, "exec")
    except Exception:  # noqa: BLE001
        return set()
    out = set()
    stack = [code]
    while stack:
        c = stack.pop()
        out.update(l for _s, _e, l in c.co_lines() if l is not None)
        stack.extend(k for k in c.co_consts if isinstance(k, types.CodeType))
    return out


def reach_summary(prop):
    """executed lines of the property's anchor files (what the workloads of this run actually drove)"""
    anchors = []
    try:
        for l in open(os.path.join(HERE, "properties.jsonl")):
            p = json.loads(l)
            if p["id"] == prop:
                anchors = [f.replace("openaerostruct/", "", 1) for f in p["anchors"]["files"]]
    except Exception:  # noqa: BLE001
        pass
    out = {"anchor_files": {}, "other_repository_files_reached": len([f for f in REACH if f not in anchors])}
    for f in anchors:
        hit = REACH.get(f, set())
        exe = _executable_lines(os.path.join(env.REPO, "openaerostruct", f))
        out["anchor_files"][f] = {"executed_lines": len(hit & exe) if exe else len(hit), "executable_lines": len(exe)}
    out["anchor_files_never_reached"] = [f for f, v in out["anchor_files"].items() if v["executed_lines"] == 0]
    return out


def load_known():
    path = os.path.join(HERE, "known_findings.json")
    if not os.path.exists(path):
        return []
    return json.load(open(path)).get("findings", [])


def main(argv=None):
    argv = list(sys.argv[1:] if argv is None else argv)
    t0 = time.time()
    if not argv:
        print("usage: check <PROP> [--replay file] | --selftest")
        return 2
    if argv[0] == "--selftest":
        from . import selftest

        return selftest.main()
    prop = argv[0].upper()
    replay = None
    if "--replay" in argv:
        replay = argv[argv.index("--replay") + 1]
    tier = os.environ.get("VERIF_TIER", "quick")
    if tier not in ("quick", "thorough"):
        tier = "quick"
    try:
        seed = int(os.environ.get("VERIF_SEED", "0"))
    except ValueError:
        seed = 0
    jobs = int(os.environ.get("VERIF_JOBS", str(min(16, os.cpu_count() or 4))))
    try:
        env.assert_tree()
    except Exception as e:  # noqa: BLE001
        print("INCONCLUSIVE property=%s harness error: %s" % (prop, e))
        return 2
    mod = importlib.import_module("oasverif.checks." + prop.lower())
    from . import known as known_mod

    if replay:
        rec = json.load(open(replay))
        cases = [rec["case"]]
    else:
        cases = mod.cases(tier, seed)
        # the thorough tier repeats the generators with further seeds (deterministic corner lists and the suite case are kept once)
        reps = int(os.environ.get("VERIF_THOROUGH_REPS", str(getattr(mod, "THOROUGH_REPS", 3)))) if tier == "thorough" else 1
        seen = {json.dumps(c, sort_keys=True, default=str) for c in cases}
        for rep in range(1, reps):
            for c in mod.cases(tier, seed + 7919 * rep):
                k = json.dumps(c, sort_keys=True, default=str)
                if k in seen or c.get("kind") == "suite":
                    continue
                seen.add(k)
                cases.append(c)
    for c in cases:
        c.setdefault("kind", "default")
    batch_timeout = getattr(mod, "BATCH_TIMEOUT", {"quick": 900, "thorough": 3600})[tier]
    case_timeout = getattr(mod, "CASE_TIMEOUT", {"quick": 600, "thorough": 1800})[tier]
    results, notes = farm(prop, cases, jobs, batch_timeout, case_timeout)

    # ---------------------------------------------------------------- aggregate
    fam = {}
    monitors = {}
    kinds = {}
    distinct = set()
    inconclusive = list(notes)
    viols = []
    for c, r in zip(cases, results):
        kinds[c["kind"]] = kinds.get(c["kind"], 0) + 1
        if r.get("nontrivial"):
            distinct.add(digest(c))
        for k, v in r.get("families", {}).items():
            f = fam.setdefault(k, {"n": 0, "worst_margin": 0.0, "cases": 0})
            f["n"] += v["n"]
            f["cases"] += 1
            f["worst_margin"] = max(f["worst_margin"], v["worst"])
        for k, v in r.get("monitors", {}).items():
            monitors[k] = monitors.get(k, 0) + v
        for msg in r.get("inconclusive", []):
            inconclusive.append("[%s] %s" % (c["kind"], msg))
        for v in r.get("violations", []):
            viols.append((c, v))

    # generated configurations without a convergent coupling are skipped; too many of them means the workload is not what it claims
    nskip = monitors.get("cases_skipped_no_convergent_coupling", 0)
    if nskip > max(2, 0.05 * len(cases)):
        inconclusive.append("%d of %d cases had no convergent aerostructural coupling" % (nskip, len(cases)))
    # required observations: a monitor/family the property depends on that was never reached => inconclusive
    if not replay and not os.environ.get("VERIF_ONLY_CLASS"):  # (a class-restricted C01 run of tools/mutate.py evaluates one family by design)
        for name in getattr(mod, "REQUIRED_FAMILIES", []):
            if fam.get(name, {}).get("n", 0) == 0:
                inconclusive.append("required comparison family never evaluated: " + name)
        for name in getattr(mod, "REQUIRED_MONITORS", []):
            if monitors.get(name, 0) == 0:
                inconclusive.append("required monitor never reached: " + name)

    # ---------------------------------------------------------------- classify violations
    known = [k for k in load_known() if k.get("property") == prop and k.get("status") == "known"]
    matched = {}
    unlisted = []
    for c, v in viols:
        kid = known_mod.classify(prop, c, v, known)
        if kid:
            m = matched.setdefault(kid, {"n": 0, "example": v["what"]})
            m["n"] += 1
        else:
            unlisted.append((c, v))
    for k in known:
        if k["id"] in matched:
            print("KNOWN-FINDING: property=%s %s: %s (matched %d observations, e.g. %s)" % (
                prop, k["id"], k["what"], matched[k["id"]]["n"], matched[k["id"]]["example"][:160]))
        elif not replay and k.get("expect_reproduced", True):
            # a listed finding that the workload no longer reproduces is reported, never silently dropped
            print("NOTE: known finding %s was not reproduced in this run" % k["id"])

    dump = os.environ.get("VERIF_DUMP")
    if dump:
        with open(dump, "w") as fh:
            for c, v in viols:
                fh.write(json.dumps({"case": {k: w for k, w in c.items() if k not in ("mesh",)}, "v": v,
                                     "known": known_mod.classify(prop, c, v, known)}) + "\n")
    rdir = os.path.join(HERE, "replays", prop)
    seen = set()
    nlines = 0
    for c, v in unlisted:
        key = (c["kind"], v["family"])
        if key in seen and nlines >= 3:
            continue
        seen.add(key)
        if nlines >= 25:
            break
        os.makedirs(rdir, exist_ok=True)
        path = os.path.join(rdir, "%s_%s.json" % (digest(c), v["family"].replace("/", "_")[:40]))
        json.dump({"property": prop, "case": c, "violation": v, "tier": tier, "seed": seed}, open(path, "w"), indent=1)
        print("VIOLATION property=%s replay=%s" % (prop, path))
        print("   [%s] %s: %s" % (c["kind"], v["family"], v["what"][:300]))
        nlines += 1

    # ---------------------------------------------------------------- evidence
    wall = time.time() - t0
    samples = []
    seen_k = set()
    for c, r in zip(cases, results):
        if c["kind"] not in seen_k and len(samples) < 6:
            seen_k.add(c["kind"])
            cc = {k: v for k, v in c.items() if not k.startswith("_")}
            s = json.dumps(jsonable(cc))
            samples.append({"case": cc if len(s) < 4000 else s[:4000] + "...", "observed": {
                "families": r.get("families"), "info": r.get("info"), "wall_s": r.get("wall_s")}})
    ev = {
        "property_id": prop,
        "tier": tier,
        "seed": seed,
        "level": getattr(mod, "LEVEL", "exploration"),
        "coverage": {
            "evaluations": len(cases),
            "distinct_nontrivial": len(distinct),
            "rule": getattr(mod, "RULE", ""),
            "samples": samples,
            "case_kinds": kinds,
            "comparison_families": {k: {"comparisons": v["n"], "cases": v["cases"], "worst_margin_err_over_tol": v["worst_margin"]}
                                    for k, v in sorted(fam.items())},
            "monitor_events": dict(sorted(monitors.items())),
            "known_findings_matched": {k: v["n"] for k, v in matched.items()},
            "reach": reach_summary(prop),
            "inconclusive": inconclusive[:20],
            "repo": env.REPO,
        },
        "assumptions": getattr(mod, "ASSUMPTIONS", []),
        "wall_s": round(wall, 2),
        "violations": len(unlisted),
    }
    if not replay:
        evdir = os.environ.get("VERIF_EVIDENCE_DIR") or os.path.join(HERE, "evidence")
        os.makedirs(evdir, exist_ok=True)
        json.dump(jsonable(ev), open(os.path.join(evdir, prop + ".json"), "w"), indent=1)
    nobs = sum(v["n"] for v in fam.values())
    print("%s tier=%s seed=%d: %d cases (%d distinct non-trivial), %d comparisons in %d families, %d monitor events, "
          "%d violations (%d known), %d inconclusive, %.1fs" % (
              prop, tier, seed, len(cases), len(distinct), nobs, len(fam), sum(monitors.values()),
              len(viols), len(viols) - len(unlisted), len(inconclusive), wall))
    if unlisted:
        return 1
    if inconclusive:
        for m in inconclusive[:10]:
            print("INCONCLUSIVE property=%s %s" % (prop, m[:600]))
        return 2
    if nobs == 0 and not replay:
        print("INCONCLUSIVE property=%s nothing was observed" % prop)
        return 2
    return 0


if __name__ == "__main__":
    sys.exit(main())
