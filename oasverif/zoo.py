"""Model zoo: builds live OpenMDAO problems from JSON-able case descriptions using only the public groups."""
import copy
import warnings

import numpy as np

from . import meshes as M


def _om():
    import openmdao.api as om

    return om


# ---------------------------------------------------------------------------------------------- surfaces
_ux = np.linspace(0.1, 0.6, 11)
WINGBOX_AIRFOIL = dict(
    data_x_upper=_ux.copy(),
    data_x_lower=_ux.copy(),
    data_y_upper=np.array([0.0447, 0.0505, 0.0547, 0.0577, 0.0597, 0.0610, 0.0616, 0.0615, 0.0608, 0.0594, 0.0573]),
    data_y_lower=np.array([-0.0447, -0.0505, -0.0549, -0.0581, -0.0603, -0.0615, -0.0617, -0.0607, -0.0583, -0.0543, -0.0487]),
)

_ARRAY_KEYS = {
    "twist_cp", "chord_cp", "xshear_cp", "yshear_cp", "zshear_cp", "t_over_c_cp", "thickness_cp", "radius_cp",
    "spar_thickness_cp", "skin_thickness_cp", "point_masses", "point_mass_locations", "engine_thrusts",
}


def mesh_of(spec):
    if isinstance(spec, np.ndarray):
        return spec.copy()
    if "array" in spec:
        return np.array(spec["array"], dtype=float)
    if "gen" in spec:
        from openaerostruct.geometry.utils import generate_mesh

        d = dict(spec["gen"])
        if "offset" in d:
            d["offset"] = np.array(d["offset"], float)
        with warnings.catch_warnings():
            warnings.simplefilter("ignore")
            out = generate_mesh(d)
        return np.array(out[0] if isinstance(out, tuple) else out, dtype=float)
    return M.build(spec)


def aero_surface(s):
    """s: JSON description -> surface dict for the aero groups."""
    d = dict(
        name=s.get("name", "wing"),
        symmetry=bool(s.get("symmetry", True)),
        S_ref_type=s.get("S_ref_type", "wetted"),
        mesh=mesh_of(s["mesh"]),
        CL0=s.get("CL0", 0.0),
        CD0=s.get("CD0", 0.0),
        k_lam=s.get("k_lam", 0.05),
        t_over_c_cp=np.array(s.get("t_over_c_cp", [0.12]), float),
        c_max_t=s.get("c_max_t", 0.303),
        with_viscous=bool(s.get("with_viscous", False)),
        with_wave=bool(s.get("with_wave", False)),
    )
    if s.get("mesh_dtype") == "float32":
        # mesh array as read from a single-precision file; every component works in double precision on the values it holds
        d["mesh"] = d["mesh"].astype(np.float32)
    for k, v in s.items():
        if k in ("mesh", "struct", "mesh_dtype"):
            continue
        if k in _ARRAY_KEYS:
            d[k] = np.array(v, float)
        elif k not in d:
            d[k] = copy.deepcopy(v)
    return d


def struct_surface(s):
    d = aero_surface(s)
    kind = s.get("fem_model_type", "tube")
    d["fem_model_type"] = kind
    base = dict(struct_weight_relief=False, distributed_fuel_weight=False, exact_failure_constraint=False)
    if kind == "tube":
        base.update(E=70e9, G=30e9, mrho=3e3, fem_origin=0.35, wing_weight_ratio=2.0)
        base["yield"] = 500e6 / 2.5
        if "thickness_cp" not in d and "radius_cp" not in d:
            d["thickness_cp"] = np.array([0.02, 0.03])
    else:
        base.update(E=73.1e9, G=73.1e9 / 2 / 1.33, mrho=2.78e3, wing_weight_ratio=1.25, Wf_reserve=500.0, fuel_density=803.0,
                    original_wingbox_airfoil_t_over_c=0.12, strength_factor_for_upper_skin=1.0)
        base["yield"] = 420e6 / 1.5
        for k, v in WINGBOX_AIRFOIL.items():
            base[k] = v.copy()
        if "spar_thickness_cp" not in d:
            d["spar_thickness_cp"] = np.array([0.004, 0.008])
        if "skin_thickness_cp" not in d:
            d["skin_thickness_cp"] = np.array([0.005, 0.02])
    for k, v in base.items():
        d.setdefault(k, v)
    return d


# ---------------------------------------------------------------------------------------------- aero point
FLOW_DEFAULT = dict(v=248.136, alpha=5.0, beta=0.0, Mach_number=0.84, re=1.0e6, rho=0.38, cg=[0.0, 0.0, 0.0])
FLOW_UNITS = dict(v="m/s", alpha="deg", beta="deg", Mach_number=None, re="1/m", rho="kg/m**3", cg="m", omega="rad/s",
                  height_agl="m")


def build_aero(case, surfaces=None, geom=None, setup=True, mode="auto", complex_=False):
    """case: {"surfaces":[...], "flow":{...}, "compressible":bool, "rotational":bool, "geom":bool}
    geom=True routes meshes through Geometry (design variables active if *_cp/keys given);
    geom=False feeds the meshes directly with an IndepVarComp (bypasses Geometry)."""
    om = _om()
    from openaerostruct.aerodynamics.aero_groups import AeroPoint
    from openaerostruct.geometry.geometry_group import Geometry

    if surfaces is None:
        surfaces = [aero_surface(s) for s in case["surfaces"]]
    flow = dict(FLOW_DEFAULT)
    flow.update(case.get("flow", {}))
    rotational = bool(case.get("rotational", False))
    compressible = bool(case.get("compressible", False))
    ground = any(s.get("groundplane", False) for s in surfaces)
    if geom is None:
        geom = bool(case.get("geom", False))
    prob = om.Problem(reports=False)
    ivc = om.IndepVarComp()
    names = ["v", "alpha", "beta", "Mach_number", "re", "rho", "cg"]
    if rotational:
        names.append("omega")
        flow.setdefault("omega", [0.0, 0.0, 0.0])
    if ground:
        names.append("height_agl")
        flow.setdefault("height_agl", 8000.0)
    uov = case.get("units", {})  # the same SI value supplied in another unit (OpenMDAO converts it back)
    for n in names:
        val = np.array(flow[n], float)
        unit = FLOW_UNITS[n]
        if n in uov:
            from openmdao.utils.units import convert_units

            val = convert_units(val, unit, uov[n])
            unit = uov[n]
        ivc.add_output(n, val=val, units=unit)
    prob.model.add_subsystem("fc", ivc, promotes=["*"])
    for s in surfaces:
        n = s["name"]
        if geom:
            prob.model.add_subsystem(n, Geometry(surface=s))
        else:
            g = om.IndepVarComp()
            g.add_output("mesh", val=s["mesh"].copy(), units="m")
            ny = s["mesh"].shape[1]
            toc = np.array(s.get("t_over_c_cp", [0.12]), float)
            g.add_output("t_over_c", val=np.ones(ny - 1) * toc.mean() if toc.size != ny - 1 else toc)
            prob.model.add_subsystem(n, g)
    user_sref = case.get("S_ref_total")
    if user_sref is not None:
        ivc.add_output("S_ref_total", val=float(user_sref), units="m**2")
        names.append("S_ref_total")
    prob.model.add_subsystem("aero", AeroPoint(surfaces=surfaces, compressible=compressible, rotational=rotational, user_specified_Sref=user_sref is not None),
                             promotes_inputs=names)
    for s in surfaces:
        n = s["name"]
        prob.model.connect(n + ".mesh", "aero." + n + ".def_mesh")
        prob.model.connect(n + ".mesh", "aero.aero_states." + n + "_def_mesh")
        prob.model.connect(n + ".t_over_c", "aero." + n + "_perf.t_over_c")
    if setup:
        with warnings.catch_warnings():
            warnings.simplefilter("ignore")
            prob.setup(mode=mode, force_alloc_complex=complex_)
    prob._oas_surfaces = surfaces
    return prob


# ---------------------------------------------------------------------------------------------- aerostruct
AS_FLOW_DEFAULT = dict(v=248.136, alpha=3.0, Mach_number=0.84, re=1.0e6, rho=0.38, CT=9.8e-6 * 17, R=1.5e6, W0=1000.0,
                       speed_of_sound=295.4, load_factor=1.0, empty_cg=[0.0, 0.0, 0.0], fuel_mass=1234.0, beta=0.0)
AS_UNITS = dict(v="m/s", alpha="deg", beta="deg", Mach_number=None, re="1/m", rho="kg/m**3", CT="1/s", R="m", W0="kg",
                speed_of_sound="m/s", load_factor=None, empty_cg="m", fuel_mass="kg", height_agl="m", omega="rad/s")


def needs_load_factor(s):
    return s.get("struct_weight_relief") or s.get("distributed_fuel_weight") or ("n_point_masses" in s)


def build_as(case, surfaces=None, setup=True, mode="auto", npts=None, complex_=False):
    """Aerostructural problem, wired exactly as the repository's example scripts do.
    case: {"surfaces": [...], "flow": {...} or "flows": [{...},...] (multipoint), "compressible", "rotational",
    "solver": {"nl": "nlbgs"|"nlbgs_noaitken"|"newton", "lin": "direct"|"lbgs"|"krylov", "atol":..}}"""
    om = _om()
    from openaerostruct.integration.aerostruct_groups import AerostructGeometry, AerostructPoint

    if surfaces is None:
        surfaces = [struct_surface(s) for s in case["surfaces"]]
    flows = case.get("flows") or [case.get("flow", {})]
    if npts is None:
        npts = len(flows)
    rotational = bool(case.get("rotational", False))
    compressible = bool(case.get("compressible", False))
    ground = any(s.get("groundplane", False) for s in surfaces)
    any_pm = any("n_point_masses" in s for s in surfaces)
    prob = om.Problem(reports=False)
    ivc_real = om.IndepVarComp()
    uov = case.get("units", {})  # the same SI value supplied through a source declared in another unit

    class _IVC:
        """adds outputs to the IndepVarComp, converting value and unit when the case asks for another unit"""

        def add_output(self, name, val=None, units=None):
            base = name.rsplit("_", 1)[0] if name.rsplit("_", 1)[-1].isdigit() else name
            if base in uov and units is not None:
                from openmdao.utils.units import convert_units

                val = convert_units(np.array(val, float), units, uov[base])
                units = uov[base]
            ivc_real.add_output(name, val=val, units=units)

    ivc = _IVC()
    shared = ["CT", "R", "W0", "speed_of_sound", "empty_cg", "fuel_mass", "beta"]
    perpt = ["v", "alpha", "Mach_number", "re", "rho", "load_factor"]
    f0 = dict(AS_FLOW_DEFAULT)
    f0.update(flows[0])
    for n in shared:
        ivc.add_output(n, val=np.array(f0[n], float), units=AS_UNITS[n])
    if ground:
        ivc.add_output("height_agl", val=float(f0.get("height_agl", 8000.0)), units="m")
    if case.get("S_ref_total") is not None:
        ivc.add_output("S_ref_total", val=float(case["S_ref_total"]), units="m**2")
    if rotational:
        ivc.add_output("omega", val=np.array(f0.get("omega", [0.0, 0.0, 0.0]), float), units="rad/s")
        ivc.add_output("cg", val=np.array(f0.get("cg", [0.0, 0.0, 0.0]), float), units="m")
    for i in range(npts):
        f = dict(AS_FLOW_DEFAULT)
        f.update(flows[i])
        for n in perpt:
            ivc.add_output("%s_%d" % (n, i), val=np.array(f[n], float), units=AS_UNITS[n])
    if any_pm:
        s0 = [s for s in surfaces if "n_point_masses" in s][0]
        ivc.add_output("point_masses", val=np.array(case.get("point_masses", s0.get("_point_masses", [[1000.0]])), float).reshape(-1), units="kg")
        ivc.add_output("point_mass_locations", val=np.array(case.get("point_mass_locations"), float), units="m")
        ivc.add_output("engine_thrusts", val=np.array(case.get("engine_thrusts"), float).reshape(-1), units="N")
    prob.model.add_subsystem("pv", ivc_real, promotes=["*"])
    for s in surfaces:
        prob.model.add_subsystem(s["name"], AerostructGeometry(surface=s))
    c = prob.model.connect
    for i in range(npts):
        pt = "AS_point_%d" % i
        prom = ["CT", "R", "W0", "speed_of_sound", "empty_cg", "beta"]
        if ground:
            prom.append("height_agl")
        if case.get("S_ref_total") is not None:
            prom.append("S_ref_total")
        prob.model.add_subsystem(pt, AerostructPoint(surfaces=surfaces, compressible=compressible, rotational=rotational,
                                                     user_specified_Sref=case.get("S_ref_total") is not None), promotes_inputs=prom)
        if rotational:
            c("omega", pt + ".coupled.aero_states.omega")
            c("cg", pt + ".coupled.aero_states.cg")
        for n in ["v", "alpha", "Mach_number", "re", "rho"]:
            c("%s_%d" % (n, i), pt + "." + n)
        c("load_factor_%d" % i, pt + ".load_factor")
        if any(needs_load_factor(s) for s in surfaces):
            c("load_factor_%d" % i, pt + ".coupled.load_factor")
        for s in surfaces:
            name = s["name"]
            com = pt + "." + name + "_perf."
            c(name + ".local_stiff_transformed", pt + ".coupled." + name + ".local_stiff_transformed")
            c(name + ".nodes", pt + ".coupled." + name + ".nodes")
            c(name + ".mesh", pt + ".coupled." + name + ".mesh")
            c(name + ".nodes", com + "nodes")
            c(name + ".cg_location", pt + ".total_perf." + name + "_cg_location")
            c(name + ".structural_mass", pt + ".total_perf." + name + "_structural_mass")
            c(name + ".t_over_c", com + "t_over_c")
            if s.get("struct_weight_relief"):
                c(name + ".element_mass", pt + ".coupled." + name + ".element_mass")
            if s["fem_model_type"] == "tube":
                c(name + ".radius", com + "radius")
                c(name + ".thickness", com + "thickness")
            else:
                for q in ["Qz", "J", "A_enc", "htop", "hbottom", "hfront", "hrear", "spar_thickness"]:
                    c(name + "." + q, com + q)
                if s.get("distributed_fuel_weight"):
                    c(name + ".struct_setup.fuel_vols", pt + ".coupled." + name + ".struct_states.fuel_vols")
                    c("fuel_mass", pt + ".coupled." + name + ".struct_states.fuel_mass")
            if "n_point_masses" in s:
                c("point_masses", pt + ".coupled." + name + ".point_masses")
                c("point_mass_locations", pt + ".coupled." + name + ".point_mass_locations")
                c("engine_thrusts", pt + ".coupled." + name + ".engine_thrusts")
    if case.get("fuel_vol_delta"):
        # the fuel-volume constraint component, mounted as the repository's wingbox examples mount it
        from openaerostruct.structures.wingbox_fuel_vol_delta import WingboxFuelVolDelta

        for s in surfaces:
            if s["fem_model_type"] == "wingbox":
                n = s["name"]
                prob.model.add_subsystem(n + "_fuel_vol_delta", WingboxFuelVolDelta(surface=s))
                c(n + ".struct_setup.fuel_vols", n + "_fuel_vol_delta.fuel_vols")
                c("AS_point_0.fuelburn", n + "_fuel_vol_delta.fuelburn")
    if setup:
        with warnings.catch_warnings():
            warnings.simplefilter("ignore")
            prob.setup(mode=mode, force_alloc_complex=complex_)
        configure_solvers(prob, case.get("solver", {}), npts)
    prob._oas_surfaces = surfaces
    return prob


def configure_solvers(prob, sol, npts):
    om = _om()
    for i in range(npts):
        cp = getattr(prob.model, "AS_point_%d" % i).coupled
        nl = sol.get("nl", "nlbgs")
        if nl == "shipped":
            # the coupled solver exactly as AerostructPoint.setup configures it; only options a user would set are touched
            for k in ("maxiter", "use_aitken"):
                if k in sol:
                    cp.nonlinear_solver.options[k] = sol[k]
            cp.nonlinear_solver.options["iprint"] = -1
            continue
        atol = sol.get("atol", 1e-10)
        rtol = sol.get("rtol", 1e-30)
        if nl.startswith("nlbgs"):
            cp.nonlinear_solver = om.NonlinearBlockGS(use_aitken=(nl == "nlbgs"))
            cp.nonlinear_solver.options["maxiter"] = sol.get("maxiter", 200)
        elif nl == "newton":
            cp.nonlinear_solver = om.NewtonSolver(solve_subsystems=True)
            cp.nonlinear_solver.options["maxiter"] = sol.get("maxiter", 50)
        cp.nonlinear_solver.options["atol"] = atol
        cp.nonlinear_solver.options["rtol"] = rtol
        cp.nonlinear_solver.options["iprint"] = -1
        cp.nonlinear_solver.options["err_on_non_converge"] = True
        lin = sol.get("lin", "direct")
        if lin == "direct":
            cp.linear_solver = om.DirectSolver(assemble_jac=True)
        elif lin == "lbgs":
            cp.linear_solver = om.LinearBlockGS(maxiter=sol.get("lin_maxiter", 400), atol=sol.get("lin_atol", 1e-30),
                                                rtol=sol.get("lin_rtol", 1e-11), use_aitken=True, iprint=-1, err_on_non_converge=True)
        elif lin == "krylov":
            cp.linear_solver = om.ScipyKrylov(maxiter=sol.get("lin_maxiter", 400), atol=sol.get("lin_atol", 1e-30),
                                              rtol=sol.get("lin_rtol", 1e-11), iprint=-1, err_on_non_converge=True)
            pre = sol.get("precon", "lbgs")
            if pre == "lbgs":
                cp.linear_solver.precon = om.LinearBlockGS(maxiter=2, iprint=-1)
            elif pre == "direct":
                cp.linear_solver.precon = om.DirectSolver(assemble_jac=True)


# ---------------------------------------------------------------------------------------------- struct alone
def build_struct(case, surface=None, setup=True, mode="auto", complex_=False):
    """SpatialBeamAlone with loads from an IndepVarComp.  case: {"surface": {...}, "loads": [[6]*ny] or "load_seed"}"""
    om = _om()
    from openaerostruct.structures.struct_groups import SpatialBeamAlone

    if surface is None:
        surface = struct_surface(case["surface"])
    ny = surface["mesh"].shape[1]
    prob = om.Problem(reports=False)
    ivc = om.IndepVarComp()
    loads = case.get("loads")
    if loads is None:
        rng = np.random.default_rng(case.get("load_seed", 0))
        loads = rng.uniform(-1, 1, (ny, 6)) * np.array([1e3, 1e3, 1e4, 1e3, 1e3, 1e3])
    ivc.add_output("loads", val=np.array(loads, float), units="N")
    ivc.add_output("load_factor", val=float(case.get("load_factor", 1.0)))
    if "n_point_masses" in surface:
        ivc.add_output("point_masses", val=np.array(case["point_masses"], float).reshape(-1), units="kg")
        ivc.add_output("point_mass_locations", val=np.array(case["point_mass_locations"], float), units="m")
        ivc.add_output("engine_thrusts", val=np.array(case["engine_thrusts"], float).reshape(-1), units="N")
    if surface.get("distributed_fuel_weight"):
        ivc.add_output("fuel_mass", val=float(case.get("fuel_mass", AS_FLOW_DEFAULT["fuel_mass"])), units="kg")
    prob.model.add_subsystem("iv", ivc, promotes=["*"])
    prob.model.add_subsystem(surface["name"], SpatialBeamAlone(surface=surface), promotes=["*"])
    if surface.get("distributed_fuel_weight"):
        prob.model.connect("struct_setup.fuel_vols", "struct_states.fuel_vols")
        prob.model.connect("fuel_mass", "struct_states.fuel_mass")
    if setup:
        with warnings.catch_warnings():
            warnings.simplefilter("ignore")
            prob.setup(mode=mode, force_alloc_complex=complex_)
    prob._oas_surfaces = [surface]
    return prob


def build_geom(case, surface=None, setup=True):
    om = _om()
    from openaerostruct.geometry.geometry_group import Geometry

    if surface is None:
        surface = aero_surface(case["surface"])
    prob = om.Problem(reports=False)
    prob.model.add_subsystem("g", Geometry(surface=surface), promotes=["*"])
    if setup:
        with warnings.catch_warnings():
            warnings.simplefilter("ignore")
            prob.setup()
    prob._oas_surfaces = [surface]
    return prob


class NotConvergent(Exception):
    """the generated aerostructural configuration has no convergent coupling (static divergence / solver failure): outside the
    domain of every property; the case is skipped and counted, never a verdict"""


def sane_wing(spec):
    """keeps generated aerostructural wings structurally plausible for the dynamic pressures used (aspect ratio, taper)"""
    spec.update(root_chord=float(np.round(max(spec["root_chord"], spec["span"] / 9.0), 3)), taper=max(spec.get("taper", 1.0), 0.5))
    return spec


def run(prob):
    import openmdao.api as om

    with warnings.catch_warnings():
        warnings.simplefilter("ignore")
        try:
            prob.run_model()
        except om.AnalysisError as e:
            if "coupled" in str(e):
                raise NotConvergent(str(e)[:200])
            raise
        except ValueError as e:
            if "coupled" in str(e) and "infs or NaNs" in str(e):
                raise NotConvergent(str(e)[:200])
            raise
    # the Breguet range equation, fuel burn = W (exp(a) - 1) with a = R CT CD / (V CL), has a pole at L/D -> 0+: an operating point with
    # |a| > 10 (|L/D| below ~0.2: fuel burn above 2e4 x the aircraft's mass, overflowing to inf near the pole, and every relative state error
    # amplified a-fold) is not a flight condition the performance model describes; such generated points are skipped and counted
    for s in prob.model.system_iter(recurse=True):
        if type(s).__name__ == "BreguetRange" and type(s).__module__.startswith("openaerostruct"):
            i = s._inputs
            with np.errstate(all="ignore"):
                a = float(np.ravel(i["R"] * i["CT"] / i["speed_of_sound"] / i["Mach_number"] * i["CD"] / i["CL"])[0].real)
            if not np.isfinite(a) or abs(a) > 10.0:  # (for L/D -> 0- the fuel burn tends to minus the aircraft's mass: zero total weight)
                raise NotConvergent("operating point outside the domain of the Breguet performance model (exponent %.3g at %s)" % (a, s.pathname))
    return prob


def get(prob, name):
    return np.array(prob.get_val(name)).copy()
