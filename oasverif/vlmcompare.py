"""Extraction of the aerodynamic state of a live OAS model and comparison with the reference VLM."""
import numpy as np

from .refs import refvlm


def oas_states(prob, states_path, surfaces):
    """states_path: e.g. 'aero.aero_states' or 'AS_point_0.coupled.aero_states'."""
    g = lambda n: np.array(prob.get_val(states_path + "." + n)).copy()  # noqa: E731
    st = dict(
        circulations=g("circulations"),
        horseshoe=g("horseshoe_circulations"),
        mtx=g("mtx"),
        rhs=g("rhs"),
        coll_pts=g("coll_pts"),
        force_pts=g("force_pts"),
        bound_vecs=g("bound_vecs"),
        freestream=g("freestream_velocities"),
        fpv=g("force_pts_velocities"),
    )
    F = []
    N = []
    M = []
    for s in surfaces:
        n = s["name"]
        F.append(g(n + "_sec_forces").reshape(-1, 3))
        N.append(g(n + "_normals").reshape(-1, 3))
        M.append(g(n + "_def_mesh"))
    st["forces"] = np.concatenate(F)
    st["normals"] = np.concatenate(N)
    st["meshes"] = M
    return st


def reference(st, surfaces, flow, rotational=False, ground=False):
    meshes = st["meshes"]
    sym = [bool(s["symmetry"]) for s in surfaces]
    tied = None
    if ground:
        assert all(sym)
        tied = refvlm.ground_tied(meshes, flow["alpha"], float(np.ravel(flow["height_agl"])[0]))
    elif any(sym):
        ghosts = [refvlm.mirror_y(m) for m in meshes]

        def tied(s, i, j):
            if not sym[s]:
                return []
            return [(ghosts[s], i, meshes[s].shape[1] - 2 - j, 1.0)]

    ref = refvlm.solve(meshes, flow["alpha"], flow.get("beta", 0.0), v=flow["v"], rho=flow["rho"],
                       omega=(np.array(flow["omega"], float) if rotational else None),
                       cg=(np.array(flow.get("cg", [0, 0, 0]), float) if rotational else None), tied=tied)
    # round-off of the double-precision kernel evaluation itself, measured against an extended-precision assembly of the same matrix
    # (an image or neighbouring filament a few 1e-2 chords from an evaluation point costs several digits in any implementation)
    if len(ref["panels"]) <= 400:
        Ax = refvlm.aic_extended(meshes, flow["alpha"], tied=tied)
        ref["A_roundoff"] = float(np.abs(np.asarray(Ax - ref["A"], dtype=float)).max())
    else:
        ref["A_roundoff"] = 0.0
    return ref


def compare(o, st, ref, fam, rtol=1e-9, tags=()):
    """element-wise comparison of the OAS state with the reference solution"""
    v = np.linalg.norm(ref["vinf"])
    o.close(fam + "/coll_pts", st["coll_pts"], ref["coll"], rtol=rtol, tags=tags)
    o.close(fam + "/force_pts", st["force_pts"], ref["fpt"], rtol=rtol, tags=tags)
    o.close(fam + "/bound_vecs", st["bound_vecs"], ref["bnd"], rtol=rtol, tags=tags)
    o.close(fam + "/normals", st["normals"], ref["nrm"], rtol=rtol, tags=tags)
    # round-off floor of the influence coefficients: the reference's own (measured against extended precision) and that of the
    # repository's form of the segment kernel, eps * kappa * |velocity| (evaluation points a few 1e-4 segment lengths from a filament)
    ro = 100.0 * ref.get("A_roundoff", 0.0) + 10.0 * np.finfo(float).eps * ref.get("kernel_amp", 0.0)
    o.close(fam + "/aic", st["mtx"], ref["A"], rtol=rtol, atol=ro, tags=tags)
    o.count("cases_with_kernel_roundoff_above_the_relative_tolerance", int(ro > rtol * np.abs(ref["A"]).max()))
    o.close(fam + "/rhs", st["rhs"], ref["rhs"], rtol=rtol, scale=max(v, np.abs(ref["rhs"]).max()), tags=tags)
    o.close(fam + "/circulations", st["circulations"], ref["G"], rtol=rtol * 10, tags=tags)
    o.close(fam + "/horseshoe", st["horseshoe"], ref["Gh"], rtol=rtol * 10, scale=np.abs(ref["G"]).max(), tags=tags)
    o.close(fam + "/force_pt_velocity", st["fpv"], ref["Vloc"], rtol=rtol * 10, tags=tags)
    o.close(fam + "/sec_forces", st["forces"], ref["F"], rtol=rtol * 10, tags=tags)
    # tangency with the *reference* induction and the code's circulations
    res = refvlm.tangency_residual(ref, st["circulations"])
    o.close(fam + "/tangency", res, 0.0, rtol=0, atol=rtol * 10 * v * max(1.0, np.linalg.cond(ref["A"]) * 1e-3), tags=tags)
    # Kutta-Joukowski with the reference local velocity and the code's horseshoe strengths
    Fkj = ref["rho"] * st["horseshoe"][:, None] * np.cross(ref["Vloc"], ref["bnd"])
    o.close(fam + "/kutta_joukowski", st["forces"], Fkj, rtol=rtol * 10, tags=tags)
    return np.abs(ref["G"]).max() > 1e-6 * v
