"""Harness-side mesh construction (independent of the repository's generators).

A mesh *spec* is a JSON-able dict.  Convention of the result: array (nx, ny, 3); index 0 = leading edge;
spanwise index increases with y ("left" half: y from -b/2 to 0, root last; "right" half: y from 0 to b/2, root
first; "full": y from -b/2 to b/2, odd or even ny).
"""
import numpy as np


def _eta(n, spacing, rng):
    """n values from 0 to 1, strictly increasing."""
    if n == 1:
        return np.array([0.0])
    u = np.linspace(0.0, 1.0, n)
    if spacing == "cos":
        return 0.5 * (1 - np.cos(np.pi * u))
    if spacing == "halfcos":
        return np.sin(0.5 * np.pi * u)
    if spacing == "random":
        w = 0.4 + rng.random(n - 1)
        e = np.concatenate([[0.0], np.cumsum(w)])
        return e / e[-1]
    return u


def build(spec):
    """spec keys (all optional but nx, ny): nx, ny, half('left'|'right'|'full'), span (tip-to-tip of the full wing),
    root_chord, taper, sweep_deg (of the leading edge... applied as x shear ~ |y|), dihedral_deg, twist_tip_deg (linear
    washout about the quarter chord), camber (max camber fraction, parabolic), yspacing, xspacing, offset[3], seed,
    root_y (lateral position of the root for half meshes, default 0), jitter (relative random perturbation of interior
    spanwise stations)"""
    rng = np.random.default_rng(spec.get("seed", 0))
    nx = int(spec["nx"])
    ny = int(spec["ny"])
    half = spec.get("half", "left")
    span = float(spec.get("span", 10.0))
    c0 = float(spec.get("root_chord", 1.0))
    taper = float(spec.get("taper", 1.0))
    sweep = np.deg2rad(spec.get("sweep_deg", 0.0))
    dih = np.deg2rad(spec.get("dihedral_deg", 0.0))
    tw = np.deg2rad(spec.get("twist_tip_deg", 0.0))
    camber = float(spec.get("camber", 0.0))
    ysp = spec.get("yspacing", "uniform")
    xsp = spec.get("xspacing", "uniform")
    b2 = span / 2.0
    if half == "full":
        if spec.get("mirror_symmetric", True):
            # stations symmetric about the centre
            nh = (ny + 1) // 2 if ny % 2 else ny // 2
            if ny % 2:
                e = _eta(nh, ysp, rng)  # 0 (root) .. 1 (tip)
                s = np.concatenate([-e[::-1], e[1:]])
            else:
                e = _eta(nh + 1, ysp, rng)[1:] - 0.5 / nh  # no node at the centre
                e = e / e[-1] if e[-1] != 0 else e
                s = np.concatenate([-e[::-1], e])
        else:
            s = 2.0 * _eta(ny, ysp, rng) - 1.0
        y = b2 * s
    elif half == "left":
        e = _eta(ny, ysp, rng)  # root..tip
        y = -b2 * e[::-1]
    else:
        e = _eta(ny, ysp, rng)
        y = b2 * e
    ry = float(spec.get("root_y", 0.0))
    eta = np.abs(y) / b2  # 0 root .. 1 tip
    chord = c0 * (1.0 + (taper - 1.0) * eta)
    xi = _eta(nx, xsp, rng)  # 0 LE .. 1 TE
    mesh = np.zeros((nx, ny, 3))
    xle = np.tan(sweep) * np.abs(y)
    zle = np.tan(dih) * np.abs(y)
    for j in range(ny):
        xc = xi * chord[j]
        zc = 4.0 * camber * chord[j] * xi * (1.0 - xi)
        # twist about the local quarter chord (nose down for positive washout => negative incidence)
        th = -tw * eta[j]
        x0 = 0.25 * chord[j]
        xr = x0 + (xc - x0) * np.cos(th) + zc * np.sin(th)
        zr = -(xc - x0) * np.sin(th) + zc * np.cos(th)
        mesh[:, j, 0] = xle[j] + xr
        mesh[:, j, 1] = y[j]
        mesh[:, j, 2] = zle[j] + zr
    if half == "left":
        mesh[:, :, 1] -= abs(ry)
    elif half == "right":
        mesh[:, :, 1] += abs(ry)
    off = np.asarray(spec.get("offset", [0.0, 0.0, 0.0]), float)
    mesh += off
    return mesh


def mirror(mesh):
    """mirror image across y=0 with reversed spanwise node order (so y stays increasing)."""
    m = mesh[:, ::-1, :].copy()
    m[:, :, 1] *= -1.0
    return m


def full_from_left(mesh):
    """full-span mesh from a left half whose last column lies on y=0."""
    right = mirror(mesh)
    return np.concatenate([mesh, right[:, 1:, :]], axis=1)


def full_from_right(mesh):
    left = mirror(mesh)
    return np.concatenate([left[:, :-1, :], mesh], axis=1)


def random_spec(rng, half=None, nx=None, ny=None, fancy=True, odd_full=True):
    half = half or ["left", "right", "full"][rng.integers(3)]
    nx = nx or int(rng.integers(2, 5))
    ny = ny or int(rng.integers(2, 8))
    if half == "full" and odd_full and ny % 2 == 0:
        ny += 1
    spec = dict(nx=nx, ny=ny, half=half, span=float(np.round(rng.uniform(4, 16), 3)),
                root_chord=float(np.round(rng.uniform(0.6, 2.5), 3)), seed=int(rng.integers(1 << 30)))
    if fancy:
        spec.update(
            taper=float(np.round(rng.uniform(0.3, 1.0), 3)),
            sweep_deg=float(np.round(rng.uniform(-10, 35), 2)),
            dihedral_deg=float(np.round(rng.uniform(-5, 12), 2)),
            twist_tip_deg=float(np.round(rng.uniform(-3, 5), 2)),
            camber=float(np.round(rng.choice([0.0, rng.uniform(0.0, 0.05)]), 4)),
            yspacing=str(rng.choice(["uniform", "cos", "random"])),
            xspacing=str(rng.choice(["uniform", "cos"])),
        )
    return spec
