"""Independent 3-D Euler-Bernoulli frame: textbook 12x12 element, node DOF order [u v w rx ry rz],
T = diag(R,R,R,R), dense assembly, clamped node removed by DOF elimination.

Local triad: e1 along the element, e2 = e1 x X / |.|, e3 = e1 x e2 (the one convention shared with the
repository; it matters only when Iy != Iz).  Bending about local y (plane x-z) uses Iy, about local z uses Iz.
"""
import numpy as np


def kel(E, G, A, Iy, Iz, J, L):
    k = np.zeros((12, 12))
    a = E * A / L
    t = G * J / L
    k[0, 0] = k[6, 6] = a
    k[0, 6] = k[6, 0] = -a
    k[3, 3] = k[9, 9] = t
    k[3, 9] = k[9, 3] = -t
    b = E * Iz / L**3  # bending in the local x-y plane (v, rz)
    for (i, j, v) in [(1, 1, 12), (1, 5, 6 * L), (1, 7, -12), (1, 11, 6 * L), (5, 5, 4 * L * L), (5, 7, -6 * L),
                      (5, 11, 2 * L * L), (7, 7, 12), (7, 11, -6 * L), (11, 11, 4 * L * L)]:
        k[i, j] = k[j, i] = b * v
    c = E * Iy / L**3  # bending in the local x-z plane (w, ry)
    for (i, j, v) in [(2, 2, 12), (2, 4, -6 * L), (2, 8, -12), (2, 10, -6 * L), (4, 4, 4 * L * L), (4, 8, 6 * L),
                      (4, 10, 2 * L * L), (8, 8, 12), (8, 10, 6 * L), (10, 10, 4 * L * L)]:
        k[i, j] = k[j, i] = c * v
    return k


def triad(p0, p1):
    e1 = (p1 - p0) / np.linalg.norm(p1 - p0)
    e2 = np.cross(e1, [1.0, 0.0, 0.0])
    e2 /= np.linalg.norm(e2)
    e3 = np.cross(e1, e2)
    return np.array([e1, e2, e3])


def assemble(nodes, E, G, A, Iy, Iz, J):
    n = len(nodes)
    K = np.zeros((6 * n, 6 * n))
    for e in range(n - 1):
        R = triad(nodes[e], nodes[e + 1])
        L = np.linalg.norm(nodes[e + 1] - nodes[e])
        T = np.zeros((12, 12))
        for b in range(4):
            T[3 * b:3 * b + 3, 3 * b:3 * b + 3] = R
        ke = T.T @ kel(E, G, A[e], Iy[e], Iz[e], J[e], L) @ T
        K[6 * e:6 * e + 12, 6 * e:6 * e + 12] += ke
    return K


def solve(nodes, E, G, A, Iy, Iz, J, loads, root):
    K = assemble(nodes, E, G, A, Iy, Iz, J)
    n = len(nodes)
    free = np.array([d for d in range(6 * n) if d // 6 != root])
    u = np.zeros(6 * n)
    u[free] = np.linalg.solve(K[np.ix_(free, free)], np.asarray(loads, float).reshape(-1)[free])
    return u.reshape(n, 6), K
