"""Independent reference vortex-lattice solver (after Katz & Plotkin, ch. 10/12).

Shares no code and no index arithmetic with the repository:
  * segment law in the  (r1 x r2)/|r1 x r2|^2 * r0.(r1/|r1| - r2/|r2|)  form,
  * semi-infinite filament in the (u x r)/h^2 * (1 + cos(theta)) form,
  * vortex rings at the panel quarter chords with the trailing edge kept, the last row closed by two
    semi-infinite legs along the angle-of-attack direction u = (cos a, 0, sin a),
  * collocation at 3/4 chord, normals from the panel diagonals, horseshoe strengths by chordwise differencing,
  * Kutta-Joukowski force at the bound-vortex mid point with onset velocity + induced velocity there.
Rings can be *tied*: several rings (symmetry ghosts, ground images) share one unknown with a multiplier, so
image systems are explicit.  Evaluation is vectorised over field points only.
"""
import numpy as np

FOURPI = 4.0 * np.pi


AMP = [0.0]  # running maximum of kappa * |velocity| over the segment evaluations since the last reset (see seg)


def seg(P, a, b):
    """velocity at points P (n,3) of a unit-strength straight vortex segment from a to b."""
    r1 = P - a
    r2 = P - b
    r0 = b - a
    c = np.cross(r1, r2)
    c2 = np.einsum("ij,ij->i", c, c)
    n1 = np.linalg.norm(r1, axis=1)
    n2 = np.linalg.norm(r2, axis=1)
    on_line = c2 <= 1e-18 * np.maximum(1e-300, (n1 * n2) ** 2)  # sin(angle) <= 1e-9: coordinates of size 10 place the mid-point of a millimetre-long segment this far off its line
    c2s = np.where(on_line, 1.0, c2)
    n1s = np.where(n1 == 0, 1.0, n1)
    n2s = np.where(n2 == 0, 1.0, n2)
    k = (r1 / n1s[:, None] - r2 / n2s[:, None]) @ r0
    out = c * (k / c2s / FOURPI)[:, None]
    out[on_line] = 0.0
    if AMP is not None and out.dtype == np.float64:
        # conditioning of the usual one-over-(|r1||r2| + r1.r2) form of this kernel (the repository's): for a point close to the
        # segment the denominator cancels; round-off of that form is about eps * kappa * |velocity|
        d = n1 * n2 + np.einsum("ij,ij->i", r1, r2)
        ok = ~on_line & (d > 0)
        if ok.any():
            AMP[0] = max(AMP[0], float(np.max((n1 * n2)[ok] / d[ok] * np.linalg.norm(out[ok], axis=1))))
    return out


def semi(P, a, u):
    """unit-strength semi-infinite filament starting at a, running to infinity along unit vector u."""
    r = P - a
    ru = r @ u
    h = r - ru[:, None] * u
    h2 = np.einsum("ij,ij->i", h, h)
    rn = np.linalg.norm(r, axis=1)
    on_line = h2 <= 1e-24 * np.maximum(1e-300, rn**2)
    h2s = np.where(on_line, 1.0, h2)
    rns = np.where(rn == 0, 1.0, rn)
    out = np.cross(u, r) * ((1.0 + ru / rns) / h2s / FOURPI)[:, None]
    out[on_line] = 0.0
    if AMP is not None and out.dtype == np.float64:
        # the usual |r| (|r| - u.r) form of this kernel (the repository's) cancels for points close to the filament downstream of its start
        d = rn - ru
        ok = ~on_line & (d > 0)
        if ok.any():
            AMP[0] = max(AMP[0], float(np.max(rn[ok] / d[ok] * np.linalg.norm(out[ok], axis=1))))
    return out


def vortex_mesh(m):
    vm = np.empty_like(m)
    vm[:-1] = 0.75 * m[:-1] + 0.25 * m[1:]
    vm[-1] = m[-1]
    return vm


def ring_vel(P, vm, i, j, u):
    """unit ring (i,j) of vortex mesh vm; circulation positive in the sense A(i,j+1)->B(i,j)->C(i+1,j)->D(i+1,j+1)."""
    nx = vm.shape[0]
    A = vm[i, j + 1]
    B = vm[i, j]
    C = vm[i + 1, j]
    D = vm[i + 1, j + 1]
    v = seg(P, A, B) + seg(P, B, C) + seg(P, D, A)
    if i == nx - 2:
        v = v + semi(P, C, u) - semi(P, D, u)
    else:
        v = v + seg(P, C, D)
    return v


def panel_geometry(meshes):
    panels = [(s, i, j) for s, m in enumerate(meshes) for i in range(m.shape[0] - 1) for j in range(m.shape[1] - 1)]
    N = len(panels)
    coll = np.empty((N, 3))
    fpt = np.empty((N, 3))
    bnd = np.empty((N, 3))
    nrm = np.empty((N, 3))
    for k, (s, i, j) in enumerate(panels):
        m = meshes[s]
        ql = 0.75 * m[i, j] + 0.25 * m[i + 1, j]
        qr = 0.75 * m[i, j + 1] + 0.25 * m[i + 1, j + 1]
        tl = 0.25 * m[i, j] + 0.75 * m[i + 1, j]
        tr = 0.25 * m[i, j + 1] + 0.75 * m[i + 1, j + 1]
        coll[k] = 0.5 * (tl + tr)
        fpt[k] = 0.5 * (ql + qr)
        bnd[k] = ql - qr
        n = np.cross(m[i, j + 1] - m[i + 1, j], m[i, j] - m[i + 1, j + 1])
        nrm[k] = n / np.linalg.norm(n)
    return panels, coll, fpt, bnd, nrm


def freestream(alpha_deg, beta_deg, v):
    a = np.deg2rad(alpha_deg)
    b = np.deg2rad(beta_deg)
    vinf = v * np.array([np.cos(a) * np.cos(b), -np.sin(b), np.sin(a) * np.cos(b)])
    u = np.array([np.cos(a), 0.0, np.sin(a)])
    return vinf, u


def solve(meshes, alpha_deg, beta_deg=0.0, v=1.0, rho=1.0, omega=None, cg=None, tied=None):
    """meshes: list of real surfaces (nx,ny,3) providing unknowns, collocation and force points.
    tied(s,i,j) -> list of (mesh, i, j, multiplier): extra rings sharing the unknown of panel (s,i,j)
    (the real ring itself is always included with multiplier +1)."""
    vinf, u = freestream(alpha_deg, beta_deg, v)
    panels, coll, fpt, bnd, nrm = panel_geometry(meshes)
    N = len(panels)
    AMP[0] = 0.0
    Vc = np.tile(vinf, (N, 1))
    Vf = np.tile(vinf, (N, 1))
    if omega is not None:
        om = np.asarray(omega, float)
        c0 = np.zeros(3) if cg is None else np.asarray(cg, float)
        Vc = Vc + np.cross(om, coll - c0)
        # the repository evaluates the rotational onset velocity of a panel at its collocation point for the force too
        Vf = Vf + np.cross(om, coll - c0)
    vms = [vortex_mesh(m) for m in meshes]
    Wc = np.zeros((N, N, 3))
    Wf = np.zeros((N, N, 3))
    cache = {}
    for l, (s, i, j) in enumerate(panels):
        Wc[:, l] = ring_vel(coll, vms[s], i, j, u)
        Wf[:, l] = ring_vel(fpt, vms[s], i, j, u)
        if tied is not None:
            for (mf, ii, jj, mult) in tied(s, i, j):
                key = id(mf)
                if key not in cache:
                    cache[key] = vortex_mesh(mf)
                Wc[:, l] += mult * ring_vel(coll, cache[key], ii, jj, u)
                Wf[:, l] += mult * ring_vel(fpt, cache[key], ii, jj, u)
    A = np.einsum("klc,kc->kl", Wc, nrm)
    rhs = -np.einsum("kc,kc->k", Vc, nrm)
    G = np.linalg.solve(A, rhs)
    Gh = G.copy()
    idx = {p: k for k, p in enumerate(panels)}
    for k, (s, i, j) in enumerate(panels):
        if i > 0:
            Gh[k] = G[k] - G[idx[(s, i - 1, j)]]
    Vloc = Vf + np.einsum("klc,l->kc", Wf, G)
    F = rho * Gh[:, None] * np.cross(Vloc, bnd)
    return dict(panels=panels, coll=coll, fpt=fpt, bnd=bnd, nrm=nrm, Vc=Vc, Vf=Vf, Wc=Wc, Wf=Wf, A=A, rhs=rhs, G=G, Gh=Gh,
                Vloc=Vloc, F=F, vinf=vinf, u=u, rho=rho, kernel_amp=AMP[0])


def aic_extended(meshes, alpha_deg, tied=None):
    """the influence matrix of solve() assembled in extended precision (numpy longdouble): its distance from the double-precision
    matrix measures the round-off of the kernel evaluation itself (evaluation points very close to a filament lose digits)"""
    ld = np.longdouble
    ms = [np.asarray(m, dtype=ld) for m in meshes]
    a = ld(alpha_deg) * ld(np.pi) / ld(180)
    u = np.array([np.cos(a), ld(0), np.sin(a)], dtype=ld)
    panels, coll, fpt, bnd, nrm = panel_geometry(ms)
    coll = np.asarray(coll, dtype=ld)
    N = len(panels)
    # collocation points and normals again in extended precision (panel_geometry allocates double arrays)
    for k, (s_, i, j) in enumerate(panels):
        m = ms[s_]
        tl = ld(0.25) * m[i, j] + ld(0.75) * m[i + 1, j]
        tr = ld(0.25) * m[i, j + 1] + ld(0.75) * m[i + 1, j + 1]
        coll[k] = (tl + tr) / ld(2)
    nr = np.empty((N, 3), dtype=ld)
    for k, (s_, i, j) in enumerate(panels):
        m = ms[s_]
        n = np.cross(m[i, j + 1] - m[i + 1, j], m[i, j] - m[i + 1, j + 1])
        nr[k] = n / np.sqrt((n * n).sum())
    vms = [vortex_mesh(m) for m in ms]
    A = np.zeros((N, N), dtype=ld)
    cache = {}
    for l, (s_, i, j) in enumerate(panels):
        w = ring_vel(coll, vms[s_], i, j, u)
        if tied is not None:
            for (mf, ii, jj, mult) in tied(s_, i, j):
                key = id(mf)
                if key not in cache:
                    cache[key] = vortex_mesh(np.asarray(mf, dtype=ld))
                w = w + ld(mult) * ring_vel(coll, cache[key], ii, jj, u)
        A[:, l] = (w * nr).sum(axis=1)
    return A


def tangency_residual(sol, G):
    """normal velocity at the collocation points for a given circulation vector (reference induction)."""
    return np.einsum("kc,kc->k", sol["Vc"] + np.einsum("klc,l->kc", sol["Wc"], G), sol["nrm"])


# ------------------------------------------------------------------ image systems
def mirror_y(m):
    """mirror image of a mesh across y=0 with the spanwise node order reversed (keeps panel orientation)."""
    g = m[:, ::-1, :].copy()
    g[:, :, 1] *= -1.0
    return g


def reflect_plane(m, n, p0):
    """reflection of all mesh points across the plane through p0 with unit normal n (node order kept)."""
    d = (m - p0) @ n
    return m - 2.0 * d[..., None] * n


def symmetric_tied(meshes):
    """tied-ring function for half models: every real ring (i,j) is accompanied by its y-mirror, same strength.
    The mirrored ring of panel j on the reversed mesh is column ny-2-j; reversing the node order flips the ring's
    sense, mirroring flips it back => multiplier +1 with the ring_vel orientation convention."""
    ghosts = [mirror_y(m) for m in meshes]

    def tied(s, i, j):
        ny = meshes[s].shape[1]
        return [(ghosts[s], i, ny - 2 - j, 1.0)]

    return tied


def ground_tied(meshes, alpha_deg, height):
    """half models in ground effect: real + y-ghost (+1) and both reflected across the ground plane (-1).
    The plane passes through height*n below the origin, n = (sin a, 0, -cos a) pointing to the ground."""
    a = np.deg2rad(alpha_deg)
    n = np.array([np.sin(a), 0.0, -np.cos(a)])
    p0 = height * n
    ghosts = [mirror_y(m) for m in meshes]
    img_real = [reflect_plane(m, n, p0) for m in meshes]
    img_ghost = [reflect_plane(g, n, p0) for g in ghosts]

    def tied(s, i, j):
        ny = meshes[s].shape[1]
        return [
            (ghosts[s], i, ny - 2 - j, 1.0),
            (img_real[s], i, j, -1.0),
            (img_ghost[s], i, ny - 2 - j, -1.0),
        ]

    return tied
