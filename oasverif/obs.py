"""Observation accumulator used by every case runner (lives in the worker process)."""
import hashlib
import json
import math

import numpy as np


def jsonable(x):
    if isinstance(x, dict):
        return {str(k): jsonable(v) for k, v in x.items()}
    if isinstance(x, (list, tuple)):
        return [jsonable(v) for v in x]
    if isinstance(x, np.ndarray):
        if np.iscomplexobj(x):
            x = x.real
        return x.tolist()
    if isinstance(x, (np.floating,)):
        return float(x)
    if isinstance(x, (np.integer,)):
        return int(x)
    if isinstance(x, (np.bool_,)):
        return bool(x)
    if isinstance(x, complex):
        return x.real
    if isinstance(x, float) and not math.isfinite(x):
        return repr(x)
    return x


def digest(case):
    return hashlib.sha1(json.dumps(jsonable(case), sort_keys=True).encode()).hexdigest()[:16]


class Obs:
    """Collects comparisons ("families"), violations, monitor counters and inconclusive reasons for one case."""

    MAX_VIOL = 12

    def __init__(self):
        self.fam = {}
        self.violations = []
        self.inconclusive = []
        self.monitors = {}
        self.nontrivial = False
        self.info = {}
        self.tags = []

    # ------------------------------------------------------------------ counters
    def count(self, name, n=1):
        self.monitors[name] = self.monitors.get(name, 0) + n

    def _fam(self, family, margin):
        f = self.fam.setdefault(family, {"n": 0, "worst": 0.0})
        f["n"] += 1
        if margin > f["worst"] or not math.isfinite(margin):
            f["worst"] = float(margin) if math.isfinite(margin) else 1e300

    def violate(self, family, what, err=None, tol=None, tags=(), **detail):
        if len(self.violations) < self.MAX_VIOL:
            self.violations.append(
                jsonable(
                    {
                        "family": family,
                        "what": what,
                        "err": err,
                        "tol": tol,
                        "tags": sorted(set(list(tags) + list(self.tags))),
                        "detail": detail,
                    }
                )
            )
        else:
            self.info["more_violations"] = self.info.get("more_violations", 0) + 1

    # ------------------------------------------------------------------ comparisons
    def close(self, family, a, b, rtol=1e-9, atol=0.0, scale=None, what=None, tags=(), **detail):
        """Two arrays must agree: max|a-b| <= rtol*scale + atol, scale = max(|a|,|b|) unless given."""
        a = np.asarray(a, dtype=float)
        b = np.asarray(b, dtype=float)
        if a.shape != b.shape:
            try:
                a, b = np.broadcast_arrays(a, b)
            except ValueError:
                self._fam(family, float("inf"))
                self.violate(family, (what or family) + ": shape mismatch %s vs %s" % (a.shape, b.shape), tags=tags, **detail)
                return False
        if a.size == 0:
            return True
        if not (np.all(np.isfinite(a)) and np.all(np.isfinite(b))):
            self._fam(family, float("inf"))
            self.violate(family, (what or family) + ": non-finite value", tags=tags, **detail)
            return False
        if scale is None:
            scale = max(np.abs(a).max(), np.abs(b).max())
        err = float(np.abs(a - b).max())
        tol = rtol * float(scale) + atol
        margin = err / tol if tol > 0 else (0.0 if err == 0 else float("inf"))
        self._fam(family, margin)
        if err > tol:
            k = int(np.argmax(np.abs(a - b)))
            self.violate(
                family,
                (what or family) + ": |a-b|=%.3e > tol %.3e" % (err, tol),
                err=err,
                tol=tol,
                tags=tags,
                a=float(a.flat[k]),
                b=float(b.flat[k]),
                index=k,
                shape=list(a.shape),
                **detail,
            )
            return False
        return True

    def le(self, family, value, bound, what=None, tags=(), slack=0.0, **detail):
        """value <= bound (+slack) elementwise."""
        v = np.asarray(value, dtype=float)
        bd = np.asarray(bound, dtype=float)
        if not np.all(np.isfinite(v)):
            self._fam(family, float("inf"))
            self.violate(family, (what or family) + ": non-finite value", tags=tags, **detail)
            return False
        exc = float(np.max(v - bd))
        ref = max(float(np.max(np.abs(bd))), slack, 1e-300)
        self._fam(family, max(exc, 0.0) / slack if slack > 0 else (0.0 if exc <= 0 else float("inf")))
        if exc > slack:
            self.violate(family, (what or family) + ": exceeds bound by %.3e" % exc, err=exc, tol=slack, tags=tags, **detail)
            return False
        return True

    def true(self, family, ok, what=None, tags=(), **detail):
        self._fam(family, 0.0 if ok else float("inf"))
        if not ok:
            self.violate(family, what or family, tags=tags, **detail)
        return bool(ok)

    def unsure(self, reason):
        if len(self.inconclusive) < 20:
            self.inconclusive.append(str(reason))

    def result(self):
        return jsonable(
            {
                "nontrivial": bool(self.nontrivial),
                "families": self.fam,
                "violations": self.violations,
                "inconclusive": self.inconclusive,
                "monitors": self.monitors,
                "info": self.info,
            }
        )
