"""Mechanism predicates for the known findings listed in /verif/known_findings.json.

A known finding is identified by the *mechanism* that fails (component/function + the condition that triggers
it), expressed as a predicate over the case description and the failing observation (family + tags set by the
check).  A violation that no predicate accepts is reported as a VIOLATION.  Nothing here is written at run time.
"""

PREDICATES = {}


def predicate(name):
    def deco(f):
        PREDICATES[name] = f
        return f

    return deco


def classify(prop, case, violation, known):
    for k in known:
        p = PREDICATES.get(k.get("predicate"))
        if p is None:
            continue
        try:
            if p(case, violation):
                return k["id"]
        except Exception:  # a predicate that cannot decide does not match
            continue
    return None


def _tags(v):
    return set(v.get("tags") or [])


# ---------------------------------------------------------------------------------------------- C14
@predicate("gen_meshes_params_reapplied_as_dvs")
def _gen_meshes(case, v):
    # MultiSecGeometry + "meshes": "gen-meshes": build_sections copies the generator parameters span/taper/sweep into
    # every section dictionary, where Geometry applies them again as design variables.
    return case.get("kind") == "genmeshes_group" and v["family"] == "genmeshes/unified_equals_generated"


# ---------------------------------------------------------------------------------------------- C13
@predicate("rotate_x_nonflat_chord")
def _rotate_x(case, v):
    # Rotate pre-multiplies the twist rotation by an x-rotation that follows the local dihedral of the reference axis, also at
    # zero twist: chords that are not flat (camber, built-in twist) are tilted sideways => defaults are not a no-op.
    t = _tags(v)
    return case.get("kind") == "default" and v["family"] == "default/mesh_unchanged" and "nonflat_chords" in t and "axis_dihedral" in t


@predicate("taper_root_not_at_y0")
def _taper_y0(case, v):
    # Taper interpolates the chord ratio on the absolute y coordinate (root assumed at y=0)
    t = _tags(v)
    return case.get("kind") == "single" and case.get("dv") == "taper" and "root_off_y0" in t and v["family"].startswith("taper/")
