"""Mechanism predicates for the known findings listed in /verif/known_findings.json.

A known finding is identified by the *mechanism* that fails (component/function + the condition that triggers
it), expressed as a predicate over the case description and the failing observation (family + tags set by the
check).  A violation that no predicate accepts is reported as a VIOLATION.  Nothing here is written at run time.
"""

PREDICATES = {}


def predicate(name):
    def deco(f):
        PREDICATES[name] = f
        return f

    return deco


def classify(prop, case, violation, known):
    for k in known:
        p = PREDICATES.get(k.get("predicate"))
        if p is None:
            continue
        try:
            if p(case, violation):
                return k["id"]
        except Exception:  # a predicate that cannot decide does not match
            continue
    return None


def _tags(v):
    return set(v.get("tags") or [])


# ---------------------------------------------------------------------------------------------- C14
@predicate("gen_meshes_params_reapplied_as_dvs")
def _gen_meshes(case, v):
    # MultiSecGeometry + "meshes": "gen-meshes": build_sections copies the generator parameters span/taper/sweep into
    # every section dictionary, where Geometry applies them again as design variables.
    return case.get("kind") == "genmeshes_group" and v["family"] == "genmeshes/unified_equals_generated"


# ---------------------------------------------------------------------------------------------- C13
@predicate("rotate_x_nonflat_chord")
def _rotate_x(case, v):
    # Rotate pre-multiplies the twist rotation by an x-rotation that follows the local dihedral of the reference axis, also at
    # zero twist: chords that are not flat (camber, built-in twist) are tilted sideways => defaults are not a no-op.
    t = _tags(v)
    return case.get("kind") == "default" and v["family"] == "default/mesh_unchanged" and "nonflat_chords" in t and "axis_dihedral" in t


@predicate("taper_root_not_at_y0")
def _taper_y0(case, v):
    # Taper interpolates the chord ratio on the absolute y coordinate (root assumed at y=0)
    t = _tags(v)
    return case.get("kind") == "single" and case.get("dv") == "taper" and "root_off_y0" in t and v["family"].startswith("taper/")


# ---------------------------------------------------------------------------------------------- C04
@predicate("wave_drag_symmetric_x2")
def _wave_x2(case, v):
    # WaveDrag doubles the *coefficient* for symmetric surfaces (wave_drag.py: outputs["CDw"] *= 2 under symmetry), so the
    # half model reports exactly twice the full model's CDw; fuel burn and L=W inherit it through the total CD.
    t = _tags(v)
    if v["family"] in ("aero/CDw", "as/surface_CDw"):
        r = v["detail"].get("ratio")
        # exactly 2 in aero models; in coupled models the two converged states differ at the solver-tolerance level
        return "symmetry" in t and r is not None and abs(r - 2.0) < (1e-6 if v["family"] == "aero/CDw" else 1e-4)
    if v["family"] in ("as/fuelburn", "as/L_equals_W", "as/fuel_vol_delta"):
        return "depends_on_CDw" in t
    return False


@predicate("ghost_bridging_panel_root_off_y0")
def _ghost_bridge(case, v):
    # VortexMesh builds the ghost by mirroring all but the root column: a symmetric surface whose root is off y=0 gets a
    # ghost joined to it by a panel bridging the gap; all surfaces of such a configuration see the wrong induction.
    return case.get("kind") == "aero" and "some_root_off_y0" in _tags(v) and v["family"].startswith("aero/") and v["family"] != "aero/S_ref"


@predicate("wingbox_vm_right_half_ks")
def _wb_ks(case, v):
    # VonMisesWingbox evaluates bending stresses at element node 1, the outboard end on the right half of a full-span wing:
    # the full-span aggregate does not contain the mirror image of the left-half stresses (see C07).
    return v["family"] == "as/failure_ks_relation" and "wingbox" in _tags(v)


@predicate("point_mass_smearing_crosses_symmetry_plane")
def _pm_smear(case, v):
    # ComputePointMassLoads/ComputeThrustLoads spread each point load over *all* nodes of the surface with inverse
    # spanwise-distance^10 weights; in the full-span model a little of each mass lands on the other half (and its mirror image
    # returns the force but with a different moment arm), so half and full models differ at the 1e-7..1e-5 level.
    if case.get("kind") != "as" or not case.get("npm"):
        return False
    e, tol = v.get("err"), v.get("tol")
    if e is None or not tol:
        return False
    cross = [float(t.split("=")[1]) for t in _tags(v) if t.startswith("pm_cross=")]
    if not cross:
        return False
    # tol is 1e-7 * scale for these families; the discrepancy is bounded by a few times the share of a point load that lands on the
    # other half (computed from the case's own mass positions and node stations)
    return v["family"] in ("as/disp", "as/vonmises", "as/CM", "as/sec_forces", "as/CL", "as/CD", "as/fuelburn", "as/L_equals_W", "as/total_cg",
                           "as/surface_CDi", "as/surface_CDv", "as/surface_CL1", "as/failure_exact_on_half", "as/failure_ks_relation",
                           "as/S_ref", "as/fuel_vol_delta") and e / tol * 1e-7 <= 50.0 * cross[0] + 1e-6


# ---------------------------------------------------------------------------------------------- C01
@predicate("c01_fuel_vol_delta_partial_polluted")
def _c01_fvd(case, v):
    # WingboxFuelVolDelta halves inputs["fuelburn"] in place on symmetric surfaces: its complex-step partials are polluted at the 1e-4..1e-3 level
    t = _tags(v)
    e = v.get("err")
    return (v["family"] == "c01/WingboxFuelVolDelta" and "symmetry" in t and "of=fuel_vol_delta" in t and e is not None and e <= 5e-3)


# ---------------------------------------------------------------------------------------------- C15
@predicate("wingbox_spar_bending_sign")
def _wb_spar_sign(case, v):
    # VonMisesWingbox: front/rear spar bending stresses carry the sign of a local z axis pointing aft while the element frame has z
    # pointing forward; matched only when both corner columns equal the closed form with exactly that sign reversed
    return v["family"] == "closed/wingbox_biaxial_corners" and "wingbox" in _tags(v) and v["detail"].get("spar_sign_reversed") is True


# ---------------------------------------------------------------------------------------------- C07
@predicate("wingbox_vm_right_half")
def _wb_vm(case, v):
    # VonMisesWingbox takes the bending/shear stresses of every element at its node 1, which is the inboard end on the left half
    # and the outboard end on the right half of a full-span wing: stresses (and failure) of a mirror-symmetric full-span wingbox
    # are not mirror symmetric, and a wing and its mirror image report different stresses.
    t = _tags(v)
    return case.get("kind") in ("as_symmetric", "as_reflect") and "wingbox" in t and "vonmises" in t and v["family"].split("/")[1] in ("vonmises", "failure")


@predicate("dv_on_right_half_mesh")
def _dv_right(case, v):
    # Sweep, Dihedral and Taper take the root of a symmetric surface to be the LAST spanwise node (y0 = le[-1, 1], xp = [-span, 0]);
    # on a right-half mesh (root first) they act with the wrong sense / not at all.
    # Rotate (twist) does the same for its dihedral-following x-rotation: element angles are assigned to the nodes as if the root were
    # the last node, so on a right-half mesh whose reference axis has dihedral the twisted sections are tilted about the wrong angles.
    t = _tags(v)
    if not (case.get("kind") == "dv_halves" and not case.get("full") and v["family"] == "dv_halves/mesh" and "right_half_mesh" in t):
        return False
    return case.get("dv") in ("sweep", "dihedral", "taper") or (case.get("dv") == "twist_cp" and "axis_dihedral" in t)


# ---------------------------------------------------------------------------------------------- C03
@predicate("fuel_vol_delta_mutates_input")
def _fvd(case, v):
    # WingboxFuelVolDelta.compute: fuel_weight = inputs["fuelburn"]; fuel_weight /= 2.0  -> halves its own input vector in place
    if v["family"] == "guard/inputs_unmodified":
        return "class=WingboxFuelVolDelta" in _tags(v)
    # consequences of the same in-place edit: every re-execution without a fresh data transfer halves the fuel again
    # (outputs after check_partials/check_totals) and the complex-step partial of fuel_vol_delta picks up a spurious term
    key = v.get("detail", {}).get("key", "")
    return "fuel_vol_delta" in key


# ---------------------------------------------------------------------------------------------- C02
@predicate("fuel_vol_delta_partial_polluted")
def _fvd_total(case, v):
    # same in-place edit as C03/fuel_vol_delta_mutates_input: under OpenMDAO's complex-step loop the halved-in-place fuelburn
    # input leaves a residue, so d(fuel_vol_delta)/d(fuel_vols) is reported as 1 + O(1e-3) instead of 1; every total of the
    # fuel-volume margin inherits a relative error of that size
    if v["family"] != "fd/as" or "of=fuel_vol_delta" not in _tags(v):
        return False
    e = v.get("err")
    vs = v.get("detail", {}).get("vols_sens")
    # the spurious term is delta_i * d(fuel_vols_i)/dx with delta_i <= about 1e-3: bounded by the sensitivity of the volumes
    return e is not None and vs is not None and e <= 2e-3 * vs


@predicate("fuel_vol_delta_per_half")
def _fvd_half(case, v):
    # WingboxFuelVolDelta of a symmetric surface: sum(fuel_vols of the half) - (fuelburn/2 + reserve/2)/rho, i.e. the margin of ONE
    # half, whereas masses, areas, lift and drag of a symmetric model are reported for the whole aircraft
    if v["family"] != "as/fuel_vol_delta":
        return False
    r = v.get("detail", {}).get("ratio")
    # with point masses the fuel burn of the two models differs by the smearing share (C04/point_mass_smearing...), which the margin
    # (a small difference of large volumes) amplifies
    cross = [float(t.split("=")[1]) for t in _tags(v) if t.startswith("pm_cross=")]
    return r is not None and abs(r - 0.5) < 1e-5 + (100.0 * cross[0] if cross else 0.0)
