"""pytest plugin: runs the repository's own tests/examples with the monitors of oasverif.monitors, an input-immutability guard
and a finite-output guard hooked on every OpenAeroStruct component call.  The tests' own assertions are irrelevant here; what is
recorded is what the monitors observed.  Results go to the JSON file named by $OASVERIF_PLUGIN_OUT (one file per xdist worker)."""
import json
import os
import sys

import numpy as np

STATE = {"calls": {}, "monitor_evals": {}, "violations": [], "worst": {}, "mutations": {}, "nonfinite": {}, "current_test": None, "tests": 0}
MAX_V = 200


def _record(kind, cls, mon, prop, err, tol, msg, path):
    if len(STATE["violations"]) < MAX_V:
        STATE["violations"].append(dict(kind=kind, cls=cls, monitor=mon, property=prop, err=err, tol=tol, what=msg, component=path, test=STATE["current_test"]))


def install():
    from openmdao.core.explicitcomponent import ExplicitComponent
    from openmdao.core.implicitcomponent import ImplicitComponent
    from . import monitors

    def is_oas(c):
        return type(c).__module__.startswith("openaerostruct")

    def after_call(comp, before):
        cls = type(comp).__name__
        STATE["calls"][cls] = STATE["calls"].get(cls, 0) + 1
        if comp.under_complex_step:
            return
        ins = comp._inputs
        outs = comp._outputs
        if before is not None and not np.array_equal(before, ins.asarray(), equal_nan=True):
            STATE["mutations"][cls] = STATE["mutations"].get(cls, 0) + 1
            _record("guard", cls, "inputs_unmodified", "C03", None, None, "compute modified its own input vector in place", comp.pathname)
        oa = outs.asarray()
        if not np.all(np.isfinite(oa)):
            STATE["nonfinite"][cls] = STATE["nonfinite"].get(cls, 0) + 1
            _record("guard", cls, "outputs_finite", "C20", None, None, "non-finite output", comp.pathname)
            return
        for (name, prop, fn) in monitors.MONITORS.get(cls, []):
            try:
                r = fn(comp, ins, outs)
            except Exception as e:  # noqa: BLE001  (a monitor that cannot evaluate does not decide)
                STATE["monitor_evals"][(cls, name, prop, "error:" + type(e).__name__)] = STATE["monitor_evals"].get((cls, name, prop, "error:" + type(e).__name__), 0) + 1
                continue
            if r is None:
                continue
            err, tol, msg = r
            key = (cls, name, prop, "ok")
            STATE["monitor_evals"][key] = STATE["monitor_evals"].get(key, 0) + 1
            m = err / tol if tol > 0 else (0.0 if err == 0 else float("inf"))
            wk = "%s/%s" % (cls, name)
            if m > STATE["worst"].get(wk, 0.0):
                STATE["worst"][wk] = m
            if err > tol:
                _record("monitor", cls, name, prop, float(err), float(tol), msg, comp.pathname)

    orig_c = ExplicitComponent._compute_wrapper

    def compute_wrapper(self):
        if not is_oas(self):
            return orig_c(self)
        before = self._inputs.asarray().copy()
        r = orig_c(self)
        after_call(self, before)
        return r

    ExplicitComponent._compute_wrapper = compute_wrapper
    orig_s = ImplicitComponent._solve_nonlinear

    def solve_nonlinear(self, *a, **k):
        r = orig_s(self, *a, **k)
        if is_oas(self):
            after_call(self, None)
        return r

    ImplicitComponent._solve_nonlinear = solve_nonlinear


def pytest_configure(config):
    repo = os.path.realpath(os.environ.get("OAS_REPO", "/repo"))
    import openaerostruct

    f = os.path.realpath(openaerostruct.__file__)
    if not f.startswith(repo + os.sep):
        raise RuntimeError("plugin: openaerostruct imported from %s, expected under %s" % (f, repo))
    install()


def pytest_runtest_setup(item):
    STATE["current_test"] = item.nodeid
    STATE["tests"] += 1


def pytest_sessionfinish(session, exitstatus):
    out = os.environ.get("OASVERIF_PLUGIN_OUT")
    if not out:
        return
    wid = os.environ.get("PYTEST_XDIST_WORKER", "main")
    data = dict(calls=STATE["calls"], monitor_evals=[list(k) + [v] for k, v in STATE["monitor_evals"].items()], violations=STATE["violations"],
                worst=STATE["worst"], mutations=STATE["mutations"], nonfinite=STATE["nonfinite"], tests=STATE["tests"])
    with open("%s.%s.json" % (out, wid), "w") as fh:
        json.dump(data, fh)
