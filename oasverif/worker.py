"""Worker process: runs a batch of cases of one check and writes one JSON line per case.

usage: python -m oasverif.worker <PROP> <infile.json> <outfile.jsonl>
"""
import importlib
import json
import os
import shutil
import sys
import tempfile
import time
import traceback
import warnings


def classify_exception(exc):
    """'repo' if the innermost frame that is ours or the repository's lies in the repository, else 'harness'.
    Chained exceptions are followed (a library error handler may fail while reporting a repository error)."""
    from . import env

    chain = []
    e = exc
    seen = set()
    while e is not None and id(e) not in seen:
        seen.add(id(e))
        chain.append(e)
        e = e.__cause__ or e.__context__
    best = None
    for e in chain:  # outermost first; the original error is last and wins if it reaches into the repository
        last = None
        frames = traceback.extract_tb(e.__traceback__)
        for fr in frames:
            if env.in_repo(fr.filename):
                last = ("repo", fr)
            elif fr.filename.startswith(env.VERIF):
                last = ("harness", fr)
        # OpenMDAO refusing (set-up) or failing (run) a model that the harness assembled from the repository's groups (the innermost
        # harness frame is the call of Problem.setup / final_setup / run_model): the harness wiring is exercised on every case of the
        # unchanged tree, so on an admissible generated configuration this is the repository's model failing, not the harness
        if (last is not None and last[0] == "harness" and frames and (os.sep + "openmdao" + os.sep) in frames[-1].filename
                and any(k in (last[1].line or "") for k in (".setup(", ".final_setup(", ".run_model("))):
            last = ("repo", last[1])
        if last is not None and (best is None or last[0] == "repo"):
            best = last
    if best is None:
        return "harness", None
    return best[0], "%s:%d %s" % (best[1].filename, best[1].lineno, best[1].name)


class Reach:
    """executed-line recorder for files of the repository under test (sys.monitoring, each location disabled after its first
    hit, so the overhead is a one-off per line)"""

    TOOL = 3

    def __init__(self):
        self.hits = {}
        self.on = False

    def start(self):
        from . import env

        mon = getattr(sys, "monitoring", None)
        if mon is None:
            return
        root = os.path.join(env.REPO, "openaerostruct") + os.sep
        hits = self.hits

        def line(code, lineno):
            fn = code.co_filename
            if fn.startswith(root):
                hits.setdefault(fn[len(root):], set()).add(lineno)
            return mon.DISABLE

        try:
            mon.use_tool_id(self.TOOL, "oasverif-reach")
            mon.register_callback(self.TOOL, mon.events.LINE, line)
            mon.set_events(self.TOOL, mon.events.LINE)
            self.on = True
        except Exception:  # noqa: BLE001
            self.on = False

    def dump(self):
        return {k: sorted(v) for k, v in self.hits.items()}


def run_one(mod, case):
    from .obs import Obs

    t0 = time.time()
    try:
        res = mod.run_case(case)
        if isinstance(res, Obs):
            res = res.result()
    except Exception as exc:  # noqa: BLE001
        from . import env
        from . import zoo as _zoo

        if isinstance(exc, _zoo.NotConvergent):
            return {"nontrivial": False, "families": {}, "violations": [], "inconclusive": [], "monitors": {"cases_skipped_no_convergent_coupling": 1},
                    "info": {"skipped": str(exc)[:200]}, "wall_s": round(time.time() - t0, 3)}
        where, frame = classify_exception(exc)
        tbs = traceback.format_exc()
        if isinstance(exc, env.HarnessError):
            where = "harness"
        res = {"nontrivial": False, "families": {}, "violations": [], "inconclusive": [], "monitors": {}, "info": {}}
        msg = "%s: %s" % (type(exc).__name__, str(exc)[:300])
        if where == "repo" and not getattr(mod, "CRASH_IS_INCONCLUSIVE", False):
            res["violations"].append(
                {
                    "family": "crash",
                    "what": "repository code raised on an admissible case: " + msg,
                    "err": None,
                    "tol": None,
                    "tags": ["crash", type(exc).__name__],
                    "detail": {"frame": frame, "traceback": tbs[-1500:]},
                }
            )
        else:
            res["inconclusive"].append("harness/library exception: " + msg + " @ " + str(frame) + "\n" + tbs[-800:])
    res["wall_s"] = round(time.time() - t0, 3)
    return res


def main(argv):
    prop, infile, outfile = argv[:3]
    from . import env

    env.assert_tree()
    warnings.filterwarnings("ignore")
    import numpy as np

    np.seterr(all="ignore")
    mod = importlib.import_module("oasverif.checks." + prop.lower())
    cases = json.load(open(infile))
    scratch = tempfile.mkdtemp(prefix="oasverif_")
    os.chdir(scratch)
    reach = Reach()
    if os.environ.get("VERIF_REACH", "1") == "1":
        reach.start()
    try:
        with open(outfile, "a") as out:
            for idx, case in cases:
                out.write(json.dumps({"i": idx, "start": True}) + "\n")
                out.flush()
                res = run_one(mod, case)
                out.write(json.dumps({"i": idx, "result": res}) + "\n")
                out.flush()
            if reach.on:
                out.write(json.dumps({"reach": reach.dump()}) + "\n")
    finally:
        os.chdir("/")
        shutil.rmtree(scratch, ignore_errors=True)


if __name__ == "__main__":
    main(sys.argv[1:])
